"""C09 — inferred kinds agree with the values computed at run time."""
import kinds_common as kc
import ser
from common import matcher

ID = "C09"
SOURCES = ["dagrt/data.py", "dagrt/function_registry.py", "dagrt/builtins_python.py"]
RULE = ("random EXECUTABLE typed programs (3-12 assignments over real / complex scalars, ints, flags, real and complex arrays "
        "filled by loops, one user type, built-ins norm/len/isnan/dot_product/elementwise_abs/array, user functions of declared "
        "kinds, powers, quotients, min/max, subscripts, broadcast initialisation 'acc <- 0; acc <- acc + vec', variables "
        "re-assigned with a higher kind). Real kind inference (SymbolKindFinder, written and shuffled order) and the REAL "
        "interpreter's exec methods on a recording store; every stored value's type is mapped to a run-time kind. Compared with "
        "the Lean models: the inferred table and the run-time kind of every assignment. Oracle: every assigned variable has a "
        "kind; every stored value is compatible with its variable's kind; never complex where real is claimed. "
        "Non-trivial: >= 4 assignments and at least one complex or user-type value.")
ctx = None
TRUSTED = ["the model of Python/NumPy dynamic typing (Model/RtKinds.lean) is validated by this run, not derived",
           "user types are represented by a numpy.ndarray subclass carrying the type identifier"]

INIT = [["<t>", "real"], ["<dt>", "real"], ["<state>y", ["user", "a"]]]
RT_FUNCS = [["<func>uv", [["user", "a"]]], ["<func>ar", [["arr", False]]], ["<func>cx", ["cplx"]], ["<func>sc", ["real"]],
            ["<func>two", ["real", ["arr", True]]]]
KIND_FUNCS = [["<func>uv", [["U", "a"]]], ["<func>ar", [["A", True]]], ["<func>cx", [["S", False]]], ["<func>sc", [["S", True]]],
              ["<func>two", [["S", True], ["A", False]]]]
CALL = "__call__"          # marks a CALL STATEMENT in a program: [CALL, [assignees...], function, args, kw]


def user_vec_class():
    import numpy as np

    class UserVec(np.ndarray):
        tid = "a"

        def __array_finalize__(self, obj):
            self.tid = getattr(obj, "tid", "a")
    return UserVec


_UV = None


def uv(values):
    global _UV
    import numpy as np
    if _UV is None:
        _UV = user_vec_class()
    return np.array(values, dtype=float).view(_UV)


def py_funcs():
    import numpy as np
    return {"<func>uv": lambda t=0, y=None: uv([1.0 + t, 2.0, 3.5]),
            "<func>ar": lambda x=0: np.array([1.0, 2.5, float(np.real(x))]),
            "<func>cx": lambda x=0: complex(0.5, 1.0) * x,
            "<func>sc": lambda x=0: float(np.real(x)) * 0.5 + 1.25,
            "<func>two": lambda x=0: (float(np.real(x)) + 0.5, np.array([1.0 + 1j, -2.0, 0.5j]))}


def rt_of(v):
    import numpy as np
    if v is None:
        return "none"
    if isinstance(v, (bool, np.bool_)):
        return "bool"
    if isinstance(v, (int, np.integer)):
        return "int"
    if isinstance(v, (float, np.floating)):
        return "real"
    if isinstance(v, (complex, np.complexfloating)):
        return "cplx"
    if isinstance(v, np.ndarray):
        if v.ndim == 0:          # a 0-d array behaves as the scalar it holds
            return rt_of(v[()]) if type(v[()]) is not type(v) else "none"
        if _UV is not None and isinstance(v, _UV):
            return ["user", v.tid]
        return ["arr", bool(np.iscomplexobj(v))]
    return "none"


# ---- typed program generator: env maps name -> class in {real, cplx, int, flag, arr, carr, user}

def gen_program(rng):
    env = {"<t>": "real", "<dt>": "real", "<state>y": "user"}
    prog = []      # [lhs, sub_or_None, expr, loops]
    ctr = [0]

    def fresh(cls):
        pool = [n for n, c in env.items() if c == cls and not n.startswith("<")]
        if pool and rng.random() < 0.3:
            return rng.choice(pool)
        ctr[0] += 1
        return f"{cls[0]}{ctr[0]}"

    def pick(*classes):
        pool = [n for n, c in env.items() if c in classes]
        return ["v", rng.choice(pool)] if pool else None

    def real():
        r = rng.random()
        a = pick("real") or ["cf", "1.5"]
        if r < 0.2:
            return ["cf", repr(rng.choice([0.5, 2.25, 3.0]))]
        if r < 0.35:
            return ["*", [a, ["c", rng.randint(1, 3)]]]
        if r < 0.45:
            return ["+", [a, pick("real", "int") or ["c", 1]]]
        if r < 0.55 and pick("arr", "carr", "user"):
            return ["call", rng.choice(["<builtin>norm_2", "<builtin>norm_inf", "<builtin>norm_1"]), [pick("arr", "carr", "user")], []]
        if r < 0.62:
            return ["call", "<func>sc", [a], []]
        if r < 0.7:
            if rng.random() < 0.4:
                # an INTEGER base (a product of counters, + 1: positive) to a fractional power: a real number
                i1, i2 = pick("int") or ["c", 2], pick("int") or ["c", 3]
                return ["**", ["+", [["*", [i1, i2]], ["c", 1]]], ["cf", "0.5"]]
            return ["**", a, ["c", 2]]
        if r < 0.78:
            # Python's min/max return one of their arguments: keep both of one class (the model reports the join)
            return [rng.choice(["min", "max"]), [a, pick("real") or ["cf", "0.5"]]]
        if r < 0.86:
            return ["/", a, rng.choice([["c", 2], ["cf", "4.0"], pick("int") or ["c", 3]])]
        if r < 0.93 and pick("arr"):
            return ["sub", pick("arr"), ["c", rng.randrange(3)]]
        return ["*", [pick("int") or ["c", 2], ["cf", "0.5"]]]

    if rng.random() < 0.85:
        # the usual way the kind of a state variable becomes known: a right-hand side's declared result
        prog.append(["<state>y", None, ["call", "<func>uv", [["v", "<t>"], ["v", "<state>y"]], []], []])
    for _ in range(rng.randint(3, 12)):
        r = rng.random()
        if r < 0.25:
            n = fresh("real")
            if env.get(n) in (None, "real", "int"):
                prog.append([n, None, real(), []])
                env[n] = "real"
        elif r < 0.35:
            n = rng.choice([fresh("cplx")] + [x for x, c in env.items() if c == "real" and not x.startswith("<")][:1])
            # (2+0j): complex by TYPE with a zero imaginary part (a value-based test such as numpy.iscomplex calls it real)
            e = rng.choice([["*", [pick("real"), ["cz", "1j"]]], ["+", [pick("real"), ["cz", "2j"]]],
                            ["*", [pick("real"), ["cz", "(2+0j)"]]], ["+", [pick("real"), ["cz", "(1+0j)"]]],
                            ["call", "<func>cx", [pick("real")], []],
                            # a real base to a COMPLEX power: complex (the exponent's kind must flow into the result)
                            ["**", ["cf", "2.5"], ["*", [pick("real"), ["cz", "1j"]]]],
                            ["**", ["cf", "1.5"], ["cz", "0.5j"]],
                            ["*", [pick("cplx") or ["cz", "1j"], pick("real")]]])
            prog.append([n, None, e, []])
            env[n] = "cplx"
        elif r < 0.42:
            n = fresh("int")
            if env.get(n) in (None, "int"):
                e = rng.choice([["c", rng.randint(1, 4)], ["call", "<builtin>len", [pick("arr", "user") or ["v", "<state>y"]], []]])
                prog.append([n, None, e, []])
                env[n] = "int"
        elif r < 0.55:
            n = fresh("arr")
            if env.get(n) in (None, "arr"):
                q = rng.random()
                if q < 0.4 or not pick("arr"):
                    prog.append([n, None, ["call", "<builtin>array", [["c", 3]], []], []])
                    prog.append([n, ["v", "i"], ["*", [["v", "i"], ["cf", "0.5"]]], [["i", ["c", 0], ["c", 3]]]])
                elif q < 0.55:
                    prog.append([n, None, ["call", "<func>ar", [pick("real")], []], []])
                elif q < 0.7:
                    prog.append([n, None, ["+", [pick("arr"), pick("arr")]], []])
                elif q < 0.85:
                    prog.append([n, None, ["*", [pick("arr"), pick("real")]], []])
                else:
                    prog.append([n, None, ["call", "<builtin>elementwise_abs", [pick("arr", "carr")], []], []])
                env[n] = "arr"
        elif r < 0.6 and pick("arr"):
            n = rng.choice([fresh("carr")] + [x for x, c in env.items() if c == "arr"][:1])
            # a complex scalar and a real array, in EITHER order and under every operator that mixes them
            # (the kind rule for 'scalar first' and the one for 'array first' are separate branches of unify)
            z_, a_ = pick("cplx") or ["cz", "1j"], pick("arr")
            q = rng.random()
            if q < 0.3:
                e = ["*", [a_, z_]]
            elif q < 0.55:
                e = ["*", [z_, a_]]
            elif q < 0.7:
                e = ["+", [z_, a_]]
            elif q < 0.8:
                e = ["+", [a_, z_]]
            elif q < 0.9:
                e = ["*", [["v", "<dt>"], z_, a_]]
            else:
                e = ["*", [["cz", "2j"], a_]]
            prog.append([n, None, e, []])
            env[n] = "carr"
            if rng.random() < 0.4:
                # the norm of a complex ARRAY is declared real
                nn = fresh("real")
                if env.get(nn) in (None, "real"):
                    prog.append([nn, None, ["call", rng.choice(["<builtin>norm_2", "<builtin>norm_1", "<builtin>norm_inf"]),
                                            [["v", n]], []], []])
                    env[nn] = "real"
        elif r < 0.72:
            n = fresh("user")
            if env.get(n) in (None, "user"):
                q = rng.random()
                if q < 0.4:
                    e = ["call", "<func>uv", [["v", "<t>"], ["v", "<state>y"]], []]
                elif q < 0.6:
                    e = ["*", [pick("user"), pick("real")]]
                elif q < 0.8:
                    e = ["+", [pick("user"), ["*", [["v", "<dt>"], pick("user")]]]]
                else:
                    e = ["call", "<builtin>elementwise_abs", [pick("user")], []]
                prog.append([n, None, e, []])
                env[n] = "user"
        elif r < 0.82:
            n = fresh("flag")
            if env.get(n) in (None, "flag"):
                q = rng.random()
                if q < 0.12:
                    e = ["cb", rng.random() < 0.5]
                elif q < 0.5:
                    e = ["cmp", rng.choice(["<", ">=", "=="]), pick("real"), pick("real", "int")]
                elif q < 0.75:
                    e = ["call", "<builtin>isnan", [pick("real", "arr", "user")], []]
                elif pick("flag"):
                    e = rng.choice([["not", pick("flag")], ["and", [pick("flag"), pick("flag")]]])
                else:
                    e = ["cmp", "<", pick("real"), ["cf", "1.0"]]
                prog.append([n, None, e, []])
                env[n] = "flag"
        elif r < 0.9 and pick("arr", "user"):
            # broadcast initialisation
            n = "acc%d" % len(prog)
            src = pick("arr", "user")
            prog.append([n, None, ["c", 0], []])
            prog.append([n, None, ["+", [["v", n], src]], []])
            env[n] = env[src[1]]
        elif r < 0.93 and pick("arr"):
            prog.append([fresh("real"), None, ["call", "<builtin>dot_product", [pick("arr"), pick("arr")], []], []])
            env[prog[-1][0]] = "real"
        elif r < 0.97:
            # CALL STATEMENTS with one or several results; now and then with FEWER assignees than results (inference
            # must reject that: a single assignee would receive the whole tuple)
            q = rng.random()
            short = rng.random() < 0.15
            if q < 0.5:
                a, w = fresh("real"), fresh("carr")
                if env.get(a) in (None, "real") and env.get(w) in (None, "carr"):
                    prog.append([CALL, [a] if short else [a, w], "<func>two", [pick("real")], []])
                    env[a] = "real"
                    if not short:
                        env[w] = "carr"
            elif q < 0.75:
                a = fresh("real")
                if env.get(a) in (None, "real"):
                    prog.append([CALL, [a], "<func>sc", [], [["x", pick("real")]]])
                    env[a] = "real"
            else:
                n = fresh("user")
                if env.get(n) in (None, "user"):
                    prog.append([CALL, [n], "<func>uv", [["v", "<t>"], ["v", "<state>y"]], []])
                    env[n] = "user"
        else:
            prog.append(["<state>y", None, ["+", [["v", "<state>y"], ["*", [["v", "<dt>"], pick("user")]]]], []])
    if not prog:
        prog.append(["r0", None, ["cf", "1.5"], []])
    return prog


SAMPLE_RTS = ["bool", "int", "real", "cplx", ["arr", False], ["arr", True], ["user", "a"]]
BUILTINS1 = ["<builtin>norm_1", "<builtin>norm_2", "<builtin>norm_inf", "<builtin>len", "<builtin>isnan",
             "<builtin>elementwise_abs", "<builtin>array"]


def sample_value(rt, n=3):
    import numpy as np
    if n == 4:
        return np.array([2.0, 1.0, 1.0, 3.0]) * (1j if rt[1] else 1.0) + (1.0 if rt[1] else 0.0)
    if n == 2:
        return np.array([1.0, -2.0]) * (1j if rt[1] else 1.0)
    if rt == "bool":
        return True
    if rt == "int":
        return 3
    if rt == "real":
        return 0.75
    if rt == "cplx":
        return 1 + 2j
    if rt == ["arr", False]:
        return np.array([1.0, -2.0, 0.5])
    if rt == ["arr", True]:
        return np.array([1.0 + 1j, -2.0, 0.5j])
    return uv([1.0, -2.0, 0.5])


def cases(rng, tier):
    # declared result kinds of every built-in, both check modes, every argument kind of the universe
    for f, names in kc.BUILTIN_ARGS.items():
        for chk in (False, True):
            if len(names) <= 2:
                import itertools
                for ks in itertools.product(kc.UNIVERSE, repeat=len(names)):
                    yield {"op": "C09.results", "tag": "declared", "f": f, "pos": list(ks), "kw": [], "check": chk}
                    if len(names) == 2:
                        yield {"op": "C09.results", "tag": "declared", "f": f, "pos": [ks[0]], "kw": [[names[1], ks[1]]], "check": chk}
            else:
                for _ in range(150 if tier == "quick" else 1500):
                    ks = [rng.choice(kc.UNIVERSE) for _ in names]
                    npos = rng.randint(0, len(names))
                    kw = [[names[i], ks[i]] for i in range(npos, len(names))]
                    rng.shuffle(kw)
                    yield {"op": "C09.results", "tag": "declared", "f": f, "pos": ks[:npos], "kw": kw, "check": chk}
    # what the Python implementations return, per run-time kind of the argument(s)
    for f in BUILTINS1:
        for rt in SAMPLE_RTS:
            yield {"op": "C09.rt", "tag": "impl1", "src": [["out", None, ["call", f, [["v", "in0"]], []], []]],
                   "order": [0], "inputs": [["in0", rt]]}
    for r1 in SAMPLE_RTS:
        for r2 in SAMPLE_RTS:
            yield {"op": "C09.rt", "tag": "impl2", "inputs": [["in0", r1], ["in1", r2]], "order": [0],
                   "src": [["out", None, ["call", "<builtin>dot_product", [["v", "in0"], ["v", "in1"]], []], []]]}
            for o in ("+", "*"):
                yield {"op": "C09.rt", "tag": "arith", "inputs": [["in0", r1], ["in1", r2]], "order": [0],
                       "src": [["out", None, [o, [["v", "in0"], ["v", "in1"]]], []]]}
            for o in ("/", "**"):
                yield {"op": "C09.rt", "tag": "arith", "inputs": [["in0", r1], ["in1", r2]], "order": [0],
                       "src": [["out", None, [o, ["v", "in0"], ["v", "in1"]], []]]}
    for f in ("<builtin>matmul", "<builtin>linear_solve"):
        for ca in (False, True):
            for cb in (False, True):
                yield {"op": "C09.rt", "tag": "impl4", "inputs": [["in0", ["arr", ca], 4], ["in1", ["arr", cb], 2]], "order": [0],
                       "src": [["out", None, ["call", f, [["v", "in0"], ["v", "in1"], ["c", 2], ["c", 1]], []], []]]}
    for ca in (False, True):
        yield {"op": "C09.rt", "tag": "impl4", "inputs": [["in0", ["arr", ca], 4]], "order": [0],
               "src": [["out", None, ["call", "<builtin>transpose", [["v", "in0"], ["c", 2]], []], []]]}
    for _ in range(700 if tier == "quick" else 12000):
        prog = gen_program(rng)
        order = list(range(len(prog)))
        rng.shuffle(order)
        yield {"op": "C09.rt", "tag": "typed", "src": prog, "order": order}
        yield {"op": "C09.infer", "tag": "typed-table", "src": prog, "order": order}


def to_specs(prog):
    return [["p1", ["callassign", st[1], st[2], st[3], st[4]] if st[0] == CALL else ["assign", st[0], st[1], st[2], st[3]]]
            for st in prog]


def model_input(case):
    if case["op"] == "C09.results":
        return case
    if case["op"] == "C09.infer":
        return {"op": "C09.infer", "prog": kc.model_prog(to_specs(case["src"]), case["order"]), "funcs": KIND_FUNCS}
    stmts = [kc.build_stmt(spec, i) for i, (ph, spec) in enumerate(to_specs(case["src"]))]
    prog = [["call", list(st.assignees), st.function_id, [ser.to_js(a) for a in st.parameters],
             [[k, ser.to_js(v)] for k, v in st.kw_parameters.items()]] if hasattr(st, "assignees") else
            [st.assignee, bool(st.assignee_subscript), ser.to_js(st.expression), [l[0] for l in st.loops]] for st in stmts]
    return {"op": "C09.rt", "prog": prog, "rtfuncs": RT_FUNCS, "init": INIT + [i[:2] for i in case.get("inputs", [])]}


def real_run(case):
    """execute in written order with the real interpreter's exec_Assign on a recording store"""
    import sem_common as sc
    from dagrt.exec_numpy import NumpyInterpreter
    from dagrt.language import DAGCode, ExecutionPhase
    stmts = [kc.build_stmt(spec, i) for i, (ph, spec) in enumerate(to_specs(case["src"]))]
    code = DAGCode({"p": ExecutionPhase("p", "p", [])}, "p")
    interp = NumpyInterpreter(code, py_funcs())
    log = []

    class D(dict):
        def __setitem__(self, k, v):
            log.append((k, v))
            dict.__setitem__(self, k, v)
    ctx = D()
    dict.__setitem__(ctx, "<t>", 0.5)
    dict.__setitem__(ctx, "<dt>", 0.25)
    dict.__setitem__(ctx, "<state>y", uv([1.0, -2.0, 0.5]))
    for inp in case.get("inputs", []):
        dict.__setitem__(ctx, inp[0], sample_value(inp[1], *inp[2:]))
    interp.context = ctx
    interp.eval_mapper.context = ctx
    inner = interp.eval_mapper
    evals = []

    class Rec:
        context = ctx
        functions = inner.functions

        def __call__(self, expr):
            v = inner(expr)
            evals.append((expr, v))
            return v
    interp.eval_mapper = Rec()
    out = []
    for st in stmts:
        before = len(log)
        del evals[:]
        if hasattr(st, "assignees"):
            try:
                interp.exec_AssignFunctionCall(st)
            except AssertionError:
                out.append(["raises"])          # result count does not fit the assignees
                continue
            stored = dict(log[before:])
            out += [[a, rt_of(stored[a])] for a in st.assignees]
            continue
        interp.exec_Assign(st)
        counters = {l[0] for l in st.loops}
        vals = [(k, v) for k, v in log[before:] if k not in counters]
        if st.assignee_subscript:
            # element writes go through the array object: report the kind of the value stored last
            stored = [v for e, v in evals if e is st.expression]
            out.append([st.assignee, "elem", rt_of(stored[-1])])
        else:
            k, v = vals[-1]
            out.append([k, rt_of(v)])
    return out


def declared(case):
    freg = kc.make_registry([])
    args = dict(enumerate(kc.kind_py(k) for k in case["pos"]))
    args.update({n: kc.kind_py(k) for n, k in case["kw"]})
    try:
        return {"ok": [kc.kind_js(k) for k in freg[case["f"]].get_result_kinds(args, case["check"])]}
    except Exception as e:
        return {"err": type(e).__name__}


def impl(case):
    import warnings
    warnings.simplefilter("ignore")
    if case["op"] == "C09.results":
        return declared(case)
    if case["op"] == "C09.infer":
        return {k: v for k, v in kc.run_inference(to_specs(case["src"]), KIND_FUNCS, case["order"]).items() if k != "printed"}
    try:
        rt = real_run(case)
    except Exception as e:
        if case["tag"] != "typed":
            return {"rt": [["out", "err"]]}
        return {"dropped": "run-error:" + type(e).__name__}
    return {"rt": rt}


def normalise_pair(case, impl_out, model_out):
    """single-operation cases: where the model says `err` (= not modelled / Python raises) nothing is compared;
    the theorems exclude exactly these evaluations"""
    if case["tag"] in ("impl1", "impl2", "impl4", "arith") and model_out.get("rt") == [["out", "err"]]:
        return model_out, model_out
    if case.get("tag") == "typed" and isinstance(impl_out, dict) and isinstance(model_out, dict) \
            and "rt" in impl_out and "rt" in model_out:
        # once a value WITHOUT a kind has been stored (the tuple a single assignee receives from a multi-result call),
        # what Python makes of it afterwards (tuple * 2 is a tuple) is outside the model: compare up to there
        a, b = impl_out["rt"], model_out["rt"]
        for k in range(min(len(a), len(b))):
            if a[k][-1] == "none" or b[k][-1] == "none":
                if a[:k + 1] == b[:k + 1]:
                    ctx.count("tie:compared-up-to-first-value-without-kind")
                    return {"rt": a[:k + 1]}, {"rt": b[:k + 1]}
                break
    if case["op"] == "C09.results" and "err" in impl_out and "err" in model_out:
        # which exception class a rejected argument list raises is not part of the property
        return {"err": "rejected"}, {"err": "rejected"}
    return impl_out, model_out


def compat(rt, kind):
    """independent statement of 'a value of run-time kind rt is of kind `kind`' (kc.kind_js form)"""
    if kind is None:
        return False
    if rt == "bool":
        return kind == "B"
    if rt == "int":
        return kind == "I" or kind[0] in ("S", "A", "U")
    if rt == "real":
        return kind != "B" and kind != "I" and kind[0] in ("S", "A", "U")
    if rt == "cplx":
        return (kind[0] in ("S", "A") and kind[1] is False) or kind[0] == "U"
    if isinstance(rt, list) and rt[0] == "arr":
        return kind[0] == "A" and not (rt[1] and kind[1])
    if isinstance(rt, list) and rt[0] == "user":
        return kind[0] == "U" and kind[1] == rt[1]
    return False


RT_KIND = {"bool": "B", "int": ["S", True], "real": ["S", True], "cplx": ["S", False]}


def kind_of_rt(rt):
    if isinstance(rt, list):
        return ["A", not rt[1]] if rt[0] == "arr" else ["U", rt[1]]
    return RT_KIND[rt]


def builtin_oracle(case, out):
    """declared result kind (check mode, argument kinds = the kinds of the actual values) vs. the value returned"""
    e = case["src"][0][2]
    if e[0] != "call" or out["rt"][0][1] == "err":
        return None
    rts = dict((i[0], i[1]) for i in case["inputs"])
    kinds = [kind_of_rt(rts[a[1]]) if a[0] == "v" else ["S", True] for a in e[2]]
    d = declared({"f": e[1], "pos": kinds, "kw": [], "check": True})
    if "ok" not in d or len(d["ok"]) != 1:
        return None
    ctx.count("oracle:builtin-declared-vs-returned")
    if not compat(out["rt"][0][1], d["ok"][0]):
        return {"what": f"{e[1]} on arguments of kinds {kinds} is declared to return {d['ok'][0]} but its implementation "
                        f"returned a value of run-time kind {out['rt'][0][1]}", "sig": "builtin-declared"}
    return None


def oracle(case, out):
    if "rt" in out and case["tag"] in ("impl1", "impl2", "impl4"):
        return builtin_oracle(case, out)
    if "rt" not in out or case["tag"] != "typed":
        return None
    specs = to_specs(case["src"])
    t1 = kc.run_inference(specs, KIND_FUNCS)
    t2 = kc.run_inference(specs, KIND_FUNCS, case["order"])
    if "ok" not in t1:
        ctx.count("oracle:inference-failed:" + t1["err"])
        return None       # inference did not succeed: nothing is claimed
    table = {k: v for k, v in t1["ok"]}
    # precondition: the values supplied from outside are of the kinds the table claims for them
    for name, rt in INIT:
        kind = table.get("|" + name)
        if kind is not None and not compat(rt, kind):
            ctx.count("oracle:input-not-of-inferred-kind")
            return None
    ctx.count("oracle:checked-programs")
    if "ok" in t2 and t2["ok"] != t1["ok"] and not (t1.get("printed") or t2.get("printed")):
        return {"what": "kind table depends on statement order", "sig": "order"}
    flat = []          # one entry per record of out["rt"]
    for st in case["src"]:
        if st[0] == CALL:
            flat += [(a, None, ["call-statement"], []) for a in st[1]] if len(st[1]) != 0 else []
        else:
            flat.append(tuple(st))
    if any(r == ["raises"] for r in out["rt"]):
        return {"what": "inference accepted a call statement whose result count does not fit its assignees "
                        "(the interpreter's assertion fails)", "sig": "count-mismatch-accepted"}
    for (lhs, sub, e, loops), rec in zip(flat, out["rt"]):
        key = ("|" if lhs.startswith("<") else "p1|") + lhs
        kind = table.get(key)
        if kind is None:
            return {"what": f"assigned variable {lhs} has no kind in the table", "sig": "no-kind"}
        if rec[1] == "elem":
            if kind[0] != "A":
                return {"what": f"{lhs}[...] is written but its kind is {kind}", "sig": "elem-nonarray"}
            if rec[2] not in ("int", "real", "cplx") or (rec[2] == "cplx" and kind[1] is True):
                return {"what": f"{lhs}[...] <- a value of run-time kind {rec[2]} but its kind is {kind}", "sig": "incompat",
                        "printed": bool(t1.get("printed")), "int_quotient": False}
            continue
        if not compat(rec[1], kind):
            quot_ints = e[0] == "/"
            return {"what": f"{lhs} <- ... stored a value of run-time kind {rec[1]} but its kind is {kind}", "sig": "incompat",
                    "printed": bool(t1.get("printed")), "int_quotient": quot_ints and kind == "I"}
    return None


def nontrivial(case, out):
    rts = [str(r[1:]) for r in out.get("rt", [])]
    return len(rts) >= 4 and any(("cplx" in r or "user" in r) for r in rts)


def shrink(case, still_fails):
    cur = case
    changed = True
    while changed:
        changed = False
        for i in range(len(cur["src"]) - 1, -1, -1):
            src = cur["src"][:i] + cur["src"][i + 1:]
            if not src:
                continue
            c2 = dict(cur, src=src, order=list(range(len(src))))
            if still_fails(c2):
                cur = c2
                changed = True
                break
    return cur


@matcher
def kinds_conflict_first_wins_runtime(case, fail, **kw):
    """same root cause as C14's known finding: a variable assigned values of two kinds that do not unify"""
    return fail.get("sig") == "incompat" and bool(fail.get("printed"))


@matcher
def integer_quotient(case, fail, **kw):
    return fail.get("sig") == "incompat" and bool(fail.get("int_quotient"))
