"""C13 — distinct IR names map to distinct, legal, stable target identifiers."""
import itertools
import keyword
import re

from common import matcher

ID = "C13"
SOURCES = ["dagrt/codegen/utils.py", "dagrt/codegen/python.py", "dagrt/codegen/fortran.py", "dagrt/utils.py"]
RULE = ("exhaustive: all names of length <= 2 over the alphabet {a, A, _, 0, <, >, ^, ' ', e-acute} looked up singly and in all "
        "ordered pairs (as variables; a sample as functions), with each lookup repeated; random: sets of <= 12 names with tags "
        "(<state>, <p>, <cond>, <func>, <ret_time>...), names that look generated (local_x_0, lploc_y, x_007, y_1_2, dagrt_z), case "
        "variants, long names (<= 100 chars), lookups interleaved with make_unique_fortran_name / name_refcount. Compared with the "
        "Lean model: every identifier returned by PythonNameManager / FortranNameManager, and make_identifier_from_name on every "
        "code point < 0x300 plus samples. Oracle on the real managers: legality regex + keyword list, pairwise distinctness "
        "(case-folded for Fortran), stability of repeated lookups, storage class by persistence. "
        "Non-trivial: at least two distinct keys whose sanitised forms collide or resemble generated names.")
TRUSTED = ["pytools.UniqueNameGenerator (third party) is modelled: counter regex on ASCII text, numbered candidates; "
           "Python's str.lower on ASCII; Python re \\w/\\d equal to [A-Za-z0-9_]/[0-9] because every name reaching the generator "
           "has been sanitised to ASCII identifier characters"]

ALPHA = ["a", "A", "_", "0", "<", ">", "^", " ", "é"]
TAGS = ["<state>", "<p>", "<cond>", "<func>", "<ret_time>", "<ret_state>", "<ret_time_id>", "<dt>", "<t>", ""]
# near misses of the persistent tags: per-step names all of them
NEAR_TAGS = ["<ret_timer>", "<ret_time_idx>", "<ret_time", "<ret_times>", "<ret_states>", "<ret_state", "<states>", "<state", "<State>",
             "<P>", "<pp>", "<p", "<t>_", "<dt>_", "<t>x", "<dt>x", "<T>", "<ret_time_id", "<ret>", "state>", "<<state>"]
PY_KEYWORDS = set(keyword.kwlist)
PREDEFINED = {"dagrt_t", "dagrt_dt"}     # registered with the Fortran name generator from the start
FORTRAN_RESERVED = {"dagrt_t", "dagrt_dt", "dagrt_state", "dagrt_next_phase", "dagrt_step",
                    "dagrt_ierr", "dagrt_stderr", "dagrt_nan"}       # fixed identifiers of the generated module


def short_names():
    out = []
    for n in (1, 2):
        for t in itertools.product(ALPHA, repeat=n):
            out.append("".join(t))
    return out


def rand_name(rng):
    r = rng.random()
    base = "".join(rng.choice("xyzXY_01") for _ in range(rng.randint(1, 4)))
    if r < 0.25:
        return rng.choice(TAGS) + base
    if r < 0.3:
        return rng.choice(NEAR_TAGS) + rng.choice([base, "", "y"])
    if r < 0.45:
        return rng.choice(["local_x_0", "localx", "lploc_y", "lploc_Y", "x_007", "x_7", "y_1_2", "y_1", "dagrt_z", "dagrt_T",
                           "x_0", "x", "X", "global_x", "self.global_x", "drtf_a", "dagrt_refcnt_x", "x__3", "x_", "_x", "1x",
                           # the generator's own fixed identifiers in ANOTHER letter case (Fortran does not tell them apart)
                           "dagrt_t", "dagrt_dt", "Dagrt_DT", "DAGRT_T", "Dagrt_Ierr", "DAGRT_STATE", "Dagrt_stderr", "Dagrt_Nan", "DAGRT_STEP"])
    if r < 0.5:
        return rng.choice(TAGS) + base + rng.choice([">", "->", "<", ">>", "<p>", "<state>"]) + base
    if r < 0.55:
        return base + rng.choice(["<", ">", " ", ".", "%", "é", "-"]) + base
    if r < 0.6:
        return rng.choice(TAGS) + "".join(rng.choice("abcdefghij_") for _ in range(rng.randint(50, 100)))
    if r < 0.7:
        return base.swapcase()
    return base


def cases(rng, tier):
    names = short_names()
    for lang in ("python", "fortran"):
        for a in names:
            yield {"op": "C13.names", "tag": "exh1", "lang": lang, "ops": [["var", a], ["var", a], ["func", a], ["func", a]]}
        step = 1 if tier == "thorough" else 3
        for i, (a, b) in enumerate(itertools.product(names, repeat=2)):
            if i % step:
                continue
            yield {"op": "C13.names", "tag": "exh2", "lang": lang, "ops": [["var", a], ["var", b], ["var", a], ["var", b]]}
    for tag in TAGS:
        for body in ["a>b", ">", "<state>y", "a<b", "a>", "<p>", "x->y", ">>", "<t>", "a b>c"]:
            for lang in ("python", "fortran"):
                yield {"op": "C13.names", "tag": "exh-tagged", "lang": lang,
                       "ops": [["var", tag + body], ["var", tag + body], ["refcount", tag + body] if lang == "fortran" else ["var", body]]}
    for tag in NEAR_TAGS:
        for body in ["", "y", "a>b"]:
            for lang in ("python", "fortran"):
                yield {"op": "C13.names", "tag": "near-tag", "lang": lang, "ops": [["var", tag + body], ["var", tag + body]]}
    for cp in list(range(0x300)) + [0x3b1, 0x4e2d, 0x1f600, 0x660]:
        yield {"op": "C13.ident", "tag": "ident", "name": "x" + chr(cp) + "y"}
        yield {"op": "C13.ident", "tag": "ident", "name": chr(cp)}
    for _ in range(1500 if tier == "quick" else 25000):
        pool = [rand_name(rng) for _ in range(rng.randint(1, 12))]
        lang = rng.choice(["python", "fortran"])
        ops = []
        for _ in range(rng.randint(1, 25)):
            r = rng.random()
            n = rng.choice(pool)
            if r < 0.7:
                ops.append(["var", n])
            elif r < 0.85:
                ops.append(["func", n])
            elif lang == "fortran" and r < 0.93:
                ops.append(["unique", n])
            elif lang == "fortran":
                ops.append(["refcount", n])
            else:
                ops.append(["var", n])
        yield {"op": "C13.names", "tag": "random", "lang": lang, "ops": ops}


def exhaustive(tier):
    return True


def impl(case):
    if case["op"] == "C13.ident":
        from dagrt.codegen.utils import make_identifier_from_name
        return {"ident": make_identifier_from_name(case["name"])}
    if case["lang"] == "python":
        from dagrt.codegen.python import PythonNameManager
        m = PythonNameManager()
    else:
        from dagrt.codegen.fortran import FortranNameManager
        m = FortranNameManager()
    out = []
    for k, n in case["ops"]:
        try:
            if k == "var":
                out.append(m[n])
            elif k == "func":
                out.append(m.name_function(n))
            elif k == "unique":
                out.append(m.make_unique_fortran_name(n))
            elif k == "refcount":
                out.append(m.name_refcount(n, qualified_with_state=False))
        except ValueError:
            out.append(None)
    return {"names": out}


PY_ID = re.compile(r"^[A-Za-z_][A-Za-z0-9_]*$")
F_ID = re.compile(r"^[A-Za-z][A-Za-z0-9_]*$")


def is_state(n):
    return n in ("<t>", "<dt>") or any(n.startswith(p) for p in ("<state>", "<p>", "<ret_time_id>", "<ret_time>", "<ret_state>"))


def oracle(case, out):
    if case["op"] == "C13.ident":
        return None
    lang = case["lang"]
    seen = {}          # (kind, key) -> identifier
    for (k, n), ident in zip(case["ops"], out["names"]):
        if ident is None:
            return {"what": f"name manager raised for {k} {n!r}", "sig": "raises"}
        key = (k, n)
        if k in ("var", "func", "refcount"):
            if key in seen and seen[key] != ident:
                return {"what": f"{k} {n!r} mapped to {seen[key]!r} and later to {ident!r}", "sig": "unstable"}
        if k == "unique" or key not in seen:
            # a new identifier: must differ from every other one handed out so far
            for key2, other in seen.items():
                same = (other.lower() == ident.lower()) if lang == "fortran" else (other == ident)
                if same and key2 != key:
                    return {"what": f"{key2} and {key} both map to {ident!r} (target comparison: "
                                    f"{'case-insensitive' if lang == 'fortran' else 'exact'})", "sig": "collision",
                            "fkind": "distinct"}
        if k != "unique":
            seen[key] = ident
        else:
            seen[("unique", n, len(seen))] = ident
        # legality and storage class
        if lang == "python":
            if k == "var":
                if is_state(n):
                    if not ident.startswith("self."):
                        return {"what": f"persistent {n!r} mapped to non-instance storage {ident!r}", "sig": "storage"}
                    attr = ident[len("self."):]
                else:
                    if "." in ident:
                        return {"what": f"per-step {n!r} mapped to non-local storage {ident!r}", "sig": "storage"}
                    attr = ident
            else:
                if not ident.startswith("self._functions."):
                    return {"what": f"function {n!r} mapped to {ident!r}", "sig": "storage"}
                attr = ident[len("self._functions."):]
            if not PY_ID.match(attr) or attr in PY_KEYWORDS:
                return {"what": f"{k} {n!r} -> {ident!r} is not a legal Python identifier", "sig": "illegal",
                        "fkind": "py-function-name" if k == "func" else "py"}
            if ident in ("self.next_phase", "self._functions", "self.set_up", "self.run") or \
                    (ident in ("self.t", "self.dt") and n not in ("<t>", "<dt>")):
                return {"what": f"{n!r} mapped to the reserved identifier {ident!r}", "sig": "reserved"}
        else:
            bare = ident
            if k == "var" and is_state(n):
                if not ident.startswith("dagrt_state%"):
                    return {"what": f"persistent {n!r} not in state storage: {ident!r}", "sig": "storage"}
                bare = ident[len("dagrt_state%"):]
            elif k == "var" and "%" in ident:
                return {"what": f"per-step {n!r} in state storage: {ident!r}", "sig": "storage"}
            if not F_ID.match(bare):
                return {"what": f"{k} {n!r} -> {ident!r} is not a legal Fortran identifier", "sig": "illegal",
                        "fkind": "f-leading-digit" if bare[:1].isdigit() else "f"}
            if len(bare) > 63:
                return {"what": f"{k} {n!r} -> identifier of {len(bare)} > 63 characters", "sig": "too-long", "fkind": "f-too-long"}
            if bare.lower() in FORTRAN_RESERVED and n not in ("<t>", "<dt>"):
                return {"what": f"{k} {n!r} mapped to the reserved identifier {ident!r}", "sig": "reserved", "okind": k,
                        "rname": bare.lower()}
    return None


def nontrivial(case, out):
    if case["op"] == "C13.ident":
        return not case["name"].isidentifier()
    keys = {tuple(o) for o in case["ops"]}
    idents = set(x for x in out.get("names", []) if x)
    return len(keys) >= 2 and any(re.search(r"_\d+$", i) for i in idents)


def shrink(case, still_fails):
    if case["op"] != "C13.names":
        return case
    cur = case
    changed = True
    while changed:
        changed = False
        for i in range(len(cur["ops"])):
            c2 = dict(cur, ops=cur["ops"][:i] + cur["ops"][i + 1:])
            if c2["ops"] and still_fails(c2):
                cur = c2
                changed = True
                break
    return cur


@matcher
def fortran_name_too_long(case, fail, **kw):
    return fail.get("fkind") == "f-too-long"


@matcher
def python_function_name_illegal(case, fail, **kw):
    return fail.get("fkind") == "py-function-name"


@matcher
def fortran_function_name_leading_digit(case, fail, **kw):
    if fail.get("fkind") != "f-leading-digit":
        return False
    # only function identifiers reach the generator without a letter-leading prefix
    return any(k == "func" for k, n in case["ops"])


@matcher
def fortran_user_name_with_dagrt_prefix(case, fail, **kw):
    """an IR variable that itself starts with 'dagrt_' is passed through without the lploc_ prefix"""
    if fail.get("rname") in PREDEFINED:
        return False        # these two the manager does reserve: handing one out is another defect
    return case.get("lang") == "fortran" and fail.get("sig") in ("collision", "reserved") and \
        any(k == "var" and n.startswith("dagrt_") for k, n in case["ops"])


@matcher
def fortran_function_name_reserved(case, fail, **kw):
    """a FUNCTION identifier spelled like one of the generator's fixed identifiers (function ids get no prefix)"""
    return case.get("lang") == "fortran" and fail.get("sig") == "reserved" and fail.get("okind") == "func" and \
        fail.get("rname") not in PREDEFINED
