"""Generators / converters shared by C14 and C09 (kind inference)."""
import ser


def kind_js(k):
    from dagrt.data import Array, Boolean, Integer, Scalar, UserType
    if k is None:
        return None
    if isinstance(k, Boolean):
        return "B"
    if isinstance(k, Integer):
        return "I"
    if isinstance(k, Scalar):
        return ["S", bool(k.is_real_valued)]
    if isinstance(k, Array):
        return ["A", bool(k.is_real_valued)]
    if isinstance(k, UserType):
        return ["U", k.identifier]
    raise ValueError(repr(k))


def kind_py(j):
    from dagrt.data import Array, Boolean, Integer, Scalar, UserType
    if j is None:
        return None
    if j == "B":
        return Boolean()
    if j == "I":
        return Integer()
    if j[0] == "S":
        return Scalar(j[1])
    if j[0] == "A":
        return Array(j[1])
    if j[0] == "U":
        return UserType(j[1])
    raise ValueError(j)


UNIVERSE = [None, "B", "I", ["S", True], ["S", False], ["A", True], ["A", False],
            ["U", "a"], ["U", "b"], ["U", "c"]]

USER_FUNCS = [
    ["<func>f", [["U", "a"]]],
    ["<func>g", [["U", "b"]]],
    ["<func>sc", [["S", True]]],
    ["<func>cx", [["S", False]]],
    ["<func>ar", [["A", True]]],
    ["<func>flag", ["B"]],
    ["<func>two", [["S", True], ["A", False]]],
]

BUILTIN_ARGS = {
    "<builtin>norm_1": ["x"], "<builtin>norm_2": ["x"], "<builtin>norm_inf": ["x"],
    "<builtin>len": ["x"], "<builtin>elementwise_abs": ["x"], "<builtin>dot_product": ["x", "y"],
    "<builtin>isnan": ["x"], "<builtin>array": ["n"],
    "<builtin>matmul": ["a", "b", "a_cols", "b_cols"],
    "<builtin>linear_solve": ["a", "b", "a_cols", "b_cols"],
    "<builtin>transpose": ["a", "a_cols"], "<builtin>svd": ["a", "a_cols"], "<builtin>print": ["arg"],
}


def make_registry(funcs):
    from dagrt.function_registry import base_function_registry, register_function
    freg = base_function_registry
    for name, kinds in funcs:
        freg = register_function(freg, name, ("x", "y"), default_dict={"x": 0, "y": 0},
                                 result_names=tuple(f"r{i}" for i in range(len(kinds))),
                                 result_kinds=tuple(kind_py(k) for k in kinds))
    return freg


VARS = ["a", "b", "c", "d", "e", "<state>y", "<state>z", "<p>k", "<t>", "<dt>"]


def rand_expr(rng, depth, vars_=VARS):
    r = rng.random()
    if depth <= 0 or r < 0.3:
        q = rng.random()
        if q < 0.55:
            return ["v", rng.choice(vars_)]
        if q < 0.75:
            return ["c", rng.randint(-3, 5)]
        if q < 0.85:
            return ["cf", repr(rng.choice([0.5, 1.5, 2.25]))]
        return ["cz", repr(rng.choice([1j, 2j, complex(2, 0), complex(1, 1)]))]
    if r < 0.45:
        return ["+", [rand_expr(rng, depth - 1, vars_) for _ in range(rng.randint(2, 3))]]
    if r < 0.58:
        return ["*", [rand_expr(rng, depth - 1, vars_) for _ in range(rng.randint(2, 3))]]
    if r < 0.64:
        return ["/", rand_expr(rng, depth - 1, vars_), rand_expr(rng, depth - 1, vars_)]
    if r < 0.70:
        return ["**", rand_expr(rng, depth - 1, vars_), rng.choice([["c", 2], ["cf", "0.5"], rand_expr(rng, depth - 1, vars_)])]
    if r < 0.84:
        f = rng.choice(list(BUILTIN_ARGS) + [u[0] for u in USER_FUNCS] + ["<func>unknown"])
        names = BUILTIN_ARGS.get(f, ["x", "y"])
        if f == "<func>unknown":
            return ["call", f, [rand_expr(rng, depth - 1, vars_)], []]
        n = len(names)
        q = rng.random()
        if q < 0.08:
            n = max(0, n - 1)  # missing argument
        npos = rng.randint(0, n)
        args = [rand_expr(rng, depth - 1, vars_) for _ in range(npos)]
        kw = [[names[i], rand_expr(rng, depth - 1, vars_)] for i in range(npos, n)]
        if q > 0.95 and names:
            kw.append([names[0], rand_expr(rng, depth - 1, vars_)])  # possibly duplicate / left-over
            seen = set()
            kw = [p for p in kw if not (p[0] in seen or seen.add(p[0]))]
        rng.shuffle(kw)
        return ["call", f, args, kw]
    if r < 0.88:
        return ["sub", ["v", rng.choice(vars_)], rand_expr(rng, 0, vars_)]
    if r < 0.92:
        return ["cmp", rng.choice(["<", "<=", "==", ">"]), rand_expr(rng, depth - 1, vars_), rand_expr(rng, depth - 1, vars_)]
    if r < 0.95:
        return [rng.choice(["and", "or"]), [rand_expr(rng, depth - 1, vars_) for _ in range(2)]]
    if r < 0.97:
        return ["not", rand_expr(rng, depth - 1, vars_)]
    if r < 0.985:
        return [rng.choice(["min", "max"]), [rand_expr(rng, depth - 1, vars_) for _ in range(2)]]
    return ["if", rand_expr(rng, 0, vars_), rand_expr(rng, depth - 1, vars_), rand_expr(rng, depth - 1, vars_)]


def rand_program(rng, nstmts=None):
    """list of [phase, stmt-spec]; stmt-spec is
       ["assign", lhs, sub_or_null, rhs, [[ident, lo, hi], ...]] | ["callassign", [lhs...], f, args, kw] | ["other"]"""
    n = nstmts or rng.randint(1, 8)
    phases = ["p1"] if rng.random() < 0.6 else ["p1", "p2"]
    # restrict the variable pool so that chains of dependencies are likely
    pool = rng.sample(VARS[:8], rng.randint(2, 6)) + ["<t>", "<dt>"]
    prog = []
    for _ in range(n):
        ph = rng.choice(phases)
        r = rng.random()
        if r < 0.78:
            lhs = rng.choice([v for v in pool if v not in ("<t>", "<dt>")] or ["a"])
            sub = None
            loops = []
            if rng.random() < 0.12:
                loops = [["i", ["c", 0], ["c", 3]]]
                if rng.random() < 0.7:
                    sub = ["v", "i"]
            elif rng.random() < 0.05:
                sub = ["c", 0]
            depth = rng.choice([0, 1, 1, 2, 2, 3])
            vars_ = pool + (["i"] if loops else [])
            prog.append([ph, ["assign", lhs, sub, rand_expr(rng, depth, vars_), loops]])
        elif r < 0.93:
            f = rng.choice(["<builtin>svd", "<func>two", "<func>f", "<builtin>print", "<builtin>norm_2", "<func>sc"])
            names = BUILTIN_ARGS.get(f, ["x", "y"])
            nres = {"<builtin>svd": 3, "<func>two": 2, "<builtin>print": 0}.get(f, 1)
            if rng.random() < 0.06:
                nres = max(0, nres - 1) if rng.random() < 0.5 else nres + 1
            lhs = [rng.choice([v for v in pool if v not in ("<t>", "<dt>")] or ["a"]) for _ in range(nres)]
            npos = rng.randint(0, len(names))
            args = [rand_expr(rng, 1, pool) for _ in range(npos)]
            kw = [[names[i], rand_expr(rng, 1, pool)] for i in range(npos, len(names))]
            prog.append([ph, ["callassign", lhs, f, args, kw]])
        else:
            prog.append([ph, ["other"]])
    return prog


def build_stmt(spec, idx):
    import dagrt.language as lang
    k = spec[0]
    if k == "assign":
        _, lhs, sub, rhs, loops = spec
        return lang.Assign(
            id=f"s{idx}", assignee=lhs,
            assignee_subscript=(ser.from_js(sub),) if sub is not None else (),
            expression=ser.from_js(rhs),
            loops=[(i, ser.from_js(lo), ser.from_js(hi)) for i, lo, hi in loops],
            depends_on=frozenset())
    if k == "callassign":
        _, lhs, f, args, kw = spec
        return lang.AssignFunctionCall(
            id=f"s{idx}", assignees=tuple(lhs), function_id=f,
            parameters=tuple(ser.from_js(a) for a in args),
            kw_parameters={kk: ser.from_js(v) for kk, v in kw}, depends_on=frozenset())
    return lang.Nop(id=f"s{idx}", depends_on=frozenset())


def grouped(prog, order=None):
    """indices in the order the real code builds its queue: phases by first appearance, then statements"""
    idxs = list(range(len(prog))) if order is None else list(order)
    names = []
    for i in idxs:
        if prog[i][0] not in names:
            names.append(prog[i][0])
    return names, [[i for i in idxs if prog[i][0] == ph] for ph in names]


def model_prog(prog, order=None):
    """program in the form the Lean driver reads: expressions as the real statement objects hold them"""
    from pymbolic import flatten
    out = []
    names, groups = grouped(prog, order)
    for idx in [i for g in groups for i in g]:
        ph, spec = prog[idx]
        st = build_stmt(spec, idx)
        if spec[0] == "assign":
            out.append([ph, ["assign", st.assignee, bool(st.assignee_subscript),
                             ser.to_js(st.expression), ser.to_js(flatten(st.expression)),
                             [l[0] for l in st.loops]]])
        elif spec[0] == "callassign":
            out.append([ph, ["callassign", list(st.assignees), st.function_id,
                             [ser.to_js(a) for a in st.parameters],
                             [[k, ser.to_js(v)] for k, v in st.kw_parameters.items()]]])
        else:
            out.append([ph, ["other"]])
    return out


def run_inference(prog, funcs, order=None, as_generators=False):
    """real SymbolKindFinder on the program (statements in the given order) -> canonical result"""
    import contextlib
    import io
    from dagrt.data import SymbolKindFinder
    names, groups = grouped(prog, order)
    phases = [[build_stmt(prog[i][1], i) for i in g] for g in groups]
    if as_generators:
        # one-shot iterables, as the Fortran generator passes them (get_statements_in_ast is a generator)
        phases = [(s for s in ph) for ph in phases]
    freg = make_registry(funcs)
    buf = io.StringIO()
    # "a unification failed and inference went on all the same" (SymbolKindTable.set swallows the failure) is
    # recognised by watching dagrt.data.unify itself, not by the wording of what set() prints
    import dagrt.data as dd
    swallowed = []
    orig_unify = dd.unify

    def spy(a, b):
        try:
            return orig_unify(a, b)
        except Exception:
            swallowed.append(1)
            raise
    dd.unify = spy
    try:
        with contextlib.redirect_stdout(buf):
            tbl = SymbolKindFinder(freg)(names, phases)
    except Exception as e:
        return {"err": type(e).__name__}
    finally:
        dd.unify = orig_unify
    items = []
    for n, k in tbl.global_table.items():
        items.append(["|" + n, kind_js(k)])
    for ph, t in tbl.per_phase_table.items():
        for n, k in t.items():
            items.append([ph + "|" + n, kind_js(k)])
    items.sort(key=lambda p: p[0])
    return {"ok": items, "printed": bool(swallowed) or bool(buf.getvalue().strip())}
