"""C08 — declared read/write sets cover what a statement really touches."""
import sem_common as sc
import ser

ID = "C08"
SOURCES = ["dagrt/language.py", "dagrt/utils.py", "dagrt/expression.py", "dagrt/exec_numpy.py"]
RULE = ("random statements of every kind (plain / subscripted / looped assignments with variable bounds and nested loops, "
        "multi-result and keyword calls, yields, fail, switch, raise with and without a message, no-op; on the real code only: bounds named "
        "like the statement's own counter, numpy object arrays of expressions as value / argument / yielded state) under random guards, executed on random exact-integer "
        "stores by the REAL interpreter methods (evaluate_condition + exec_*) with a recording dict as context. Compared with the "
        "Lean model: declared read and write sets (exact), the set of names actually read / assigned (loop counters aside), the "
        "resulting values, status and yielded event. Oracle: every name read is in declared reads or writes, every name assigned "
        "is in declared writes, identity map_expressions leaves both sets unchanged. Non-trivial: the guard held and something was read.")
TRUSTED = ["numpy float64 arithmetic is exact on the small integers generated (cases with any non-integral or huge value are dropped and counted)",
           "user functions are deterministic and mirrored in the driver (driverFuns)"]

WATCH = sc.INT_VARS + sc.ARR_VARS + sc.FLAG_VARS + ["t1", "t2", "w", "<t>", "<dt>"]


def cases(rng, tier):
    for _ in range(2500 if tier == "quick" else 40000):
        env = sc.base_env()
        kind = sc.g_kind(rng, env)
        r = rng.random()
        cond = ["cb", True] if r < 0.4 else (["v", "fl"] if r < 0.5 else sc.g_bool(rng, 2, env))
        if kind[0] == "nop":
            cond = ["cb", True]
        if kind[0] == "raise" and rng.random() < 0.5:
            kind = kind + ["nomsg"]          # no message: the default of Raise(...) and CodeBuilder.raise_()
        yield {"op": "C08.stmt", "tag": kind[0] + ("-loop" if kind[0] == "assign" and kind[4] else "")
               + ("-sub" if kind[0] == "assign" and kind[2] is not None else ""),
               "spec": {"cond": cond, "kind": kind}, "store": sc.g_store(rng)}
    yield from outer_counter_cases(rng, 60 if tier == "quick" else 600)
    yield from object_array_cases(rng, 90 if tier == "quick" else 900)


def object_array_cases(rng, n):
    """the value assigned, passed or yielded is a numpy OBJECT ARRAY whose entries are expressions (the interpreter
    evaluates it entry by entry): its variables are read. Decided on the real code only (the model's expression
    language has no array literals)."""
    for _ in range(n):
        env = sc.base_env()
        items = [sc.g_int(rng, rng.choice([0, 1, 1, 2]), env) for _ in range(rng.randint(1, 3))]
        arr = ["objarr", items]
        shape = rng.randrange(3)
        if shape == 0:
            kind = ["assign", "w", None, arr, []]
        elif shape == 1:
            kind = ["call", ["t1"], "<builtin>len", [arr], []]
        else:
            kind = ["yield", arr, ["v", "<t>"], "final", "y"]
        cond = ["cb", True] if rng.random() < 0.6 else sc.g_bool(rng, 1, env)
        yield {"op": None, "tag": "object-array-" + kind[0], "spec": {"cond": cond, "kind": kind}, "store": sc.g_store(rng)}


def outer_counter_cases(rng, n):
    """a loop bound (or the right-hand side) mentions a variable that is spelled like one of the statement's OWN loop
    counters: the value is read from the state before the loop sets the counter. Decided on the real code only
    (the interpreter deletes the counter afterwards; the model's stores do not hold counter names)."""
    for _ in range(n):
        shape = rng.randrange(3)
        if shape == 0:
            loops = [["i", ["c", 0], ["v", "i"]]]
        elif shape == 1:
            loops = [["i", ["c", 0], ["c", rng.randint(1, 3)]], ["k", ["c", 0], ["+", [["v", "k"], ["c", 1]]]]]
        else:
            loops = [["i", ["v", "i"], ["c", sc.ARR_LEN]]]
        lhs = rng.choice(["t1", "a"])
        kind = ["assign", lhs, None, ["+", [["v", lhs], ["c", 1]]], loops]
        store = sc.g_store(rng) + [["i", rng.randint(0, 3)], ["k", rng.randint(0, 2)]]
        yield {"op": None, "tag": "bound-named-like-own-counter", "spec": {"cond": ["cb", True], "kind": kind}, "store": store}


def model_input(case):
    st = sc.build_stmt(case["spec"]["kind"], case["spec"]["cond"])
    return {"op": "C08.stmt", "stmt": sc.stmt_js(st), "store": case["store"], "watch": WATCH}


def impl(case):
    st = sc.build_stmt(case["spec"]["kind"], case["spec"]["cond"])
    counters = {l[0] for l in getattr(st, "loops", [])}
    decl_r = sorted(st.get_read_variables())
    decl_w = sorted(st.get_written_variables())
    st2 = st.map_expressions(lambda e: e)
    ident_ok = (sorted(st2.get_read_variables()) == decl_r and sorted(st2.get_written_variables()) == decl_w)
    interp, rec = sc.make_interp(case["store"])
    try:
        ev, status = sc.exec_real(interp, st)
        store = [[x, sc.val_js(dict.get(rec, x))] for x in WATCH]
    except sc.Inexact as e:
        return {"dropped": "inexact"}
    except (TypeError, IndexError, ZeroDivisionError, ValueError) as e:
        return {"dropped": "python-error:" + type(e).__name__}
    # a counter name whose first access is a look-up was read from OUTSIDE the statement: that is a variable read
    reads = sorted({x for x in rec.reads if x not in counters} | {x for x in rec.first_reads if x in counters})
    writes = sorted({x for x in rec.writes if x not in counters})
    return {"declReads": decl_r, "declWrites": decl_w, "reads": reads, "writes": writes, "store": store,
            "status": status, "log": [ev] if ev is not None else [], "identity_ok": ident_ok}


def normalise(out):
    if isinstance(out, dict):
        return {k: v for k, v in out.items() if k != "identity_ok"}
    return out


def oracle(case, out):
    if "reads" not in out:
        return None
    decl = set(out["declReads"]) | set(out["declWrites"])
    extra = [x for x in out["reads"] if x not in decl]
    if extra:
        return {"what": f"statement read {extra}, not in its declared read/write sets {sorted(decl)}", "sig": "reads"}
    extra = [x for x in out["writes"] if x not in set(out["declWrites"])]
    if extra:
        return {"what": f"statement assigned {extra}, not in its declared write set {out['declWrites']}", "sig": "writes"}
    if not out.get("identity_ok", True):
        return {"what": "identity map_expressions changed the declared sets", "sig": "identity"}
    return None


def nontrivial(case, out):
    return bool(out.get("reads")) and (out.get("writes") or out.get("log") or out.get("status") != "running")
