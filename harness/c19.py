"""C19 — printing an expression and parsing it back returns the same expression."""
import itertools
import zlib
from fractions import Fraction

import ser
from common import matcher

ID = "C19"
SOURCES = ["dagrt/expression.py"]
RULE = ("(1) lexer: every string of length <= 3 over the alphabet {a, i, f, 1, _, <, >, `, ' ', =, ., T} plus random strings of "
        "length <= 14 over names, tags, keywords, keyword-prefixed names, numbers, operators, backticks -> token stream of the "
        "REAL lex table vs. the Lean model; (2) terminals: plain / tagged / tag-only / backtick-quoted names, keyword-like and "
        "malformed ones -> the variable the REAL parse() returns (or ParseError) vs. the model; (3) backtick removal on "
        "expressions with quoted names in every position (subscript aggregates, attribute look-ups, call arguments, function "
        "symbols) vs. the model; (4) round trip (the property itself, oracle on the real code): type-directed random expressions "
        "of depth <= 4 over tagged identifiers, arithmetic, comparisons, logical operators, calls with keyword arguments, "
        "subscripts, attribute look-ups, conditional expressions, int/float twin constants: parse(str(e)) must succeed, print "
        "identically, mention the same variables and have the same value at 5 valuations under 2 function tables. "
        "Non-trivial: round-trip cases of depth >= 2 and lexer/terminal cases containing a tagged or quoted name.")
TRUSTED = ["pymbolic's precedence-climbing parser and its printer are third party: NOT modelled; their composition with the "
           "dagrt-owned lexer rule / terminal rule / backtick pass is what the round-trip oracle exercises",
           "pytools.lex (first matching rule wins) and Python's re are modelled for the rules names are made of"]
ASSUMPTIONS = ["numbers with exponents (1e-05) are outside the lexer model (dropped from the comparison, still in the oracle)",
               "min/max print as calls and are not in the property's operator list"]


# ---------------------------------------------------------------- cases

ALPHA = ["a", "i", "f", "1", "_", "<", ">", "`", " ", "=", ".", "T"]
PIECES = ["<state>y", "<t>", "<dt>", "<func>f", "<p>k_1", "x", "if", "else", "and", "or", "not", "iffy", "android", "or_x",
          "True", "False", "Truex", "True_x", "`<state>y`", "`a:b`", "`", "``", "1", "12", "1.5", "2.", ".5", "3x", " ", "  ",
          "<", ">", "<=", ">=", "==", "!=", "=", "+", "-", "*", "**", "/", "//", "(", ")", "[", "]", ",", ".", ":", "$v", "a@b",
          "<if>x", "<state>", "<<", ">>", "_", "é", "#"]

NAMES = ["x", "_y1", "<state>y", "<t>", "<dt>", "<func>f", "<builtin>len", "<p>k_1", "<cond>c", "<ret_state>y", "`a`", "`<state>y`",
         "`a:b`", "`<func>f`", "<state>if", "<if>x", "<state>True_x", "Truex", "True_x", "iffy", "if", "and", "android", "or_x",
         "<state>", "<>", "<state", "state>y", "<state>y z", "<state> y", "< state>y", "<state>1y", "`a", "a`", "``", "`<t>`",
         "<p>and", "<p>not_x", "<p>else", "notx", "$v", "a@b", "<t>>", "<<t>", "1x", "x1", "<func>f2", "<a_b>c_d"]


def cases(rng, tier):
    n_lex = 3 if tier == "quick" else 4
    for ln in range(1, n_lex + 1):
        for tup in itertools.product(ALPHA, repeat=ln):
            yield {"op": "C19.lex", "tag": f"lex-exh{ln}", "s": "".join(tup)}
    for _ in range(1500 if tier == "quick" else 20000):
        yield {"op": "C19.lex", "tag": "lex-random", "s": "".join(rng.choice(PIECES) for _ in range(rng.randint(1, 5)))}
    for n in NAMES:
        yield {"op": "C19.name", "tag": "name-list", "s": n}
    tags = ["state", "p", "t", "dt", "func", "cond", "if", "T", "a1", "_", "True", "1"]
    bodies = ["", "y", "y_1", "1", "if", "ify", "True", "Truey", "and", "and_", "x y", "`", "a.b"]
    for t in tags:
        for b in bodies:
            yield {"op": "C19.name", "tag": "name-grid", "s": f"<{t}>{b}"}
            yield {"op": "C19.name", "tag": "name-grid", "s": f"`<{t}>{b}`"}
    for _ in range(300 if tier == "quick" else 5000):
        yield {"op": "C19.unquote", "tag": "unquote", "expr": g_quoted(rng, rng.randint(1, 3))}
    for _ in range(1500 if tier == "quick" else 30000):
        yield {"tag": "roundtrip", "expr": g_expr(rng, rng.randint(1, 4), "I")}
    # conditional expressions with every loosely-binding shape in every position (then / condition / else), bare and as
    # an operand: where a branch ends is exactly what a parser gets wrong
    X, Y, Z, W = ["v", "x"], ["v", "y"], ["v", "<cond>c"], ["v", "n"]
    cmp_ = ["cmp", "<", X, Y]
    loose_b = [["or", [Z, cmp_]], ["and", [Z, cmp_]], ["not", Z], cmp_, ["if", Z, cmp_, ["not", Z]], ["cmp", "==", Z, ["not", Z]]]
    loose_i = [["+", [X, Y]], ["*", [["c", -1], X]], ["if", Z, X, Y], ["**", X, ["c", 2]], ["/", X, Y]]
    for shape in loose_b:
        for e in (["if", Z, shape, Z], ["if", shape, Z, cmp_], ["if", Z, Z, shape], ["if", shape, shape, shape]):
            yield {"tag": "roundtrip-conditional-positions", "expr": e}
            yield {"tag": "roundtrip-conditional-positions", "expr": ["and", [e, Z]]}
            yield {"tag": "roundtrip-conditional-positions", "expr": ["or", [Z, e]]}
            yield {"tag": "roundtrip-conditional-positions", "expr": ["not", e]}
    for shape in loose_i:
        for e in (["if", Z, shape, W], ["if", cmp_, W, shape], ["if", ["cmp", "<", shape, W], shape, shape]):
            yield {"tag": "roundtrip-conditional-positions", "expr": e}
            yield {"tag": "roundtrip-conditional-positions", "expr": ["+", [e, W]]}
            yield {"tag": "roundtrip-conditional-positions", "expr": ["*", [W, e]]}
            yield {"tag": "roundtrip-conditional-positions", "expr": ["call", "<func>f", [e], [["k", e]]]}
            yield {"tag": "roundtrip-conditional-positions", "expr": ["sub", ["v", "<state>y"], e]}
    for _ in range(300 if tier == "quick" else 4000):
        yield {"tag": "roundtrip-twins", "expr": g_twins(rng)}
    for _ in range(400 if tier == "quick" else 6000):
        yield {"tag": "roundtrip-quoted", "expr": g_expr(rng, rng.randint(1, 3), "I")}


VARS = ["x", "y", "<state>y", "<t>", "<dt>", "<p>k_1", "<cond>c", "n"]
FUNS = ["<func>f", "<builtin>len", "g"]


def g_quoted(rng, d):
    def q(n):
        return "`" + n + "`" if rng.random() < 0.6 else n
    r = rng.random()
    if d <= 0 or r < 0.3:
        return ["v", q(rng.choice(VARS + ["a:b"]))]
    if r < 0.45:
        return ["sub", ["v", q(rng.choice(VARS))], g_quoted(rng, d - 1)]
    if r < 0.6:
        return ["attr", ["v", q(rng.choice(VARS))], rng.choice(["real", "imag"])]
    if r < 0.75:
        return ["call", q(rng.choice(FUNS)), [g_quoted(rng, d - 1)], [["k", g_quoted(rng, d - 1)]] if rng.random() < 0.4 else []]
    if r < 0.9:
        return ["+", [g_quoted(rng, d - 1), g_quoted(rng, d - 1)]]
    return ["if", ["cmp", "<", g_quoted(rng, d - 1), ["c", 1]], g_quoted(rng, d - 1), g_quoted(rng, d - 1)]


def g_expr(rng, d, ty):
    """type-directed: I = number, B = truth value"""
    r = rng.random()
    if ty == "B":
        if d <= 0 or r < 0.5:
            return ["cmp", rng.choice(["<", "<=", "==", "!=", ">", ">="]), g_expr(rng, d - 1, "I"), g_expr(rng, d - 1, "I")]
        if r < 0.65:
            return ["not", g_expr(rng, d - 1, "B")]
        if r < 0.78 and r >= 0.72:
            # a conditional whose branches are truth values (the else branch may be a bare `or` / `and` / `not`)
            return ["if", g_expr(rng, d - 1, "B"), g_expr(rng, d - 1, "B"), g_expr(rng, d - 1, "B")]
        if r < 0.72:
            # two truth values compared for (in)equality: a comparison as the operand of a comparison
            return ["cmp", rng.choice(["==", "!="]), g_expr(rng, d - 1, "B"), g_expr(rng, d - 1, "B")]
        return [rng.choice(["and", "or"]), [g_expr(rng, d - 1, "B") for _ in range(rng.randint(2, 3))]]
    if d <= 0 or r < 0.22:
        q = rng.random()
        if q < 0.6:
            return ["v", rng.choice(VARS)]
        if q < 0.8:
            return ["c", rng.randint(0, 5)]
        return ["cf", repr(float(rng.choice([1, 2, 0.5, 3])))]
    if r < 0.38:
        return ["+", [g_expr(rng, d - 1, "I") for _ in range(rng.randint(2, 3))]]
    if r < 0.5:
        return ["*", [g_expr(rng, d - 1, "I") for _ in range(2)]]
    if r < 0.56:
        return ["/", g_expr(rng, d - 1, "I"), g_expr(rng, d - 1, "I")]
    if r < 0.62:
        return ["**", g_expr(rng, d - 1, "I"), ["c", rng.randint(0, 3)]]
    if r < 0.76:
        f = rng.choice(FUNS)
        args = [g_expr(rng, d - 1, "I") for _ in range(rng.randint(0, 2))]
        kw = [[k, g_expr(rng, d - 1, "I")] for k in rng.sample(["k", "scaled", "n"], rng.randint(0, 2))]
        return ["call", f, args, kw]
    if r < 0.84:
        return ["sub", ["v", rng.choice(["u", "<state>v"])], g_expr(rng, d - 1, "I")]
    if r < 0.88:
        return ["attr", ["v", rng.choice(VARS)], rng.choice(["real", "imag"])]
    return ["if", g_expr(rng, d - 1, "B"), g_expr(rng, d - 1, "I"), g_expr(rng, d - 1, "I")]


def twin(j):
    """the same expression with every int constant replaced by the float of the same value (and vice versa)"""
    if isinstance(j, list) and j:
        if j[0] == "c":
            return ["cf", repr(float(j[1]))]
        if j[0] == "cf" and float(j[1]) == int(float(j[1])):
            return ["c", int(float(j[1]))]
        return [twin(x) for x in j]
    return j


def g_twins(rng):
    """two sub-expressions that are equal up to the int/float type of a constant, in one expression"""
    a = g_expr(rng, rng.randint(1, 2), "I")
    while twin(a) == a:
        a = ["+", [a, ["c", rng.randint(1, 4)]]]
    b = twin(a)
    if rng.random() < 0.5:
        a, b = b, a
    q = rng.random()
    if q < 0.3:
        return ["if", ["cmp", rng.choice(["<", "==", "<="]), a, b], ["c", 1], ["c", 0]]
    if q < 0.6:
        return ["call", rng.choice(FUNS), [a], [["scaled", b]]]
    if q < 0.8:
        return ["+", [["*", [a, ["v", "x"]]], ["/", b, ["v", "y"]]]]
    return ["sub", ["v", "u"], ["+", [["call", "g", [a], []], ["call", "g", [b], []]]]]


# ---------------------------------------------------------------- real code

TAGMAP = {"identifier": "ident", "whitespace": "ws", "int": "num", "float": "num", "imaginary": "num",
          "and": "kw", "or": "kw", "not": "kw", "if": "kw", "else": "kw", "true": "kw", "false": "kw"}


def has_exponent(s):
    import re
    return re.search(r"[0-9.][eEdD][+\-0-9]", s) is not None


def impl(case):
    op = case.get("op")
    if op == "C19.lex":
        if has_exponent(case["s"]):
            return {"dropped": "number with exponent"}
        import pytools.lex
        from dagrt.expression import _ExtendedParser
        try:
            toks = pytools.lex.lex(_ExtendedParser.lex_table, case["s"])
        except pytools.lex.InvalidTokenError:
            return {"err": "InvalidTokenError"}
        return {"toks": [["kw" if (t[1] in ("True", "False") and str(t[0]) != "identifier") else TAGMAP.get(str(t[0]), "op"), t[1]]
                         for t in toks]}
    if op == "C19.name":
        from pymbolic.primitives import Variable
        from dagrt.expression import parse
        import pytools.lex
        try:
            e = parse(case["s"])
        except (pytools.lex.ParseError, pytools.lex.InvalidTokenError):
            return {"err": "ParseError"}
        except ValueError:
            return {"notModelled": True}          # pymbolic's number terminal (float("1x"))
        if isinstance(e, Variable):
            return {"var": e.name}
        return {"notModelled": True}
    if op == "C19.unquote":
        from pymbolic.mapper.substitutor import SubstitutionMapper
        # the pass as `parse` applies it: reach the closure through parse() on a parser stub
        e = ser.from_js(case["expr"])
        return {"expr": ser.to_js(apply_backtick_pass(e))}
    # round trip: the property itself
    from dagrt.expression import parse
    e = ser.from_js(case["expr"])
    s = str(e)
    text = s
    if case.get("tag") == "roundtrip-quoted":
        # the same printed form with EVERY name written between backticks (names glued to operators and to each
        # other exactly as the printer glues them): it must denote the same expression
        names = {}

        def ph(n):
            return names.setdefault(n, "QZ%dZQ" % len(names))

        def ren(j):
            if isinstance(j, list) and j:
                if j[0] == "v" and len(j) == 2:
                    return ["v", ph(j[1])]
                if j[0] == "call":
                    return ["call", ph(j[1]), [ren(a) for a in j[2]], [[k, ren(v)] for k, v in j[3]]]
                return [ren(x) if isinstance(x, list) else x for x in j]
            return j
        text = str(ser.from_js(ren(case["expr"])))
        for n, p_ in names.items():
            text = text.replace(p_, "`" + n + "`")
    try:
        e2 = parse(text)
    except Exception as ex:
        return {"printed": s, "error": type(ex).__name__ + ": " + str(ex)[:80] + (" (written as " + text + ")" if text != s else "")}
    try:
        j2 = ser.to_js(e2)
    except ser.Unsupported as ex:
        return {"printed": s, "reparsed": None, "printed2": str(e2), "unsupported": str(ex)}
    return {"printed": s, "reparsed": j2, "printed2": str(e2)}


def apply_backtick_pass(e):
    """run the REAL backtick pass of dagrt.expression.parse on an expression object"""
    import dagrt.expression as de
    captured = {}
    orig = de._ExtendedParser.__call__

    def fake_call(self, _s, *a, **k):
        return e
    de._ExtendedParser.__call__ = fake_call
    try:
        return de.parse("unused")
    finally:
        de._ExtendedParser.__call__ = orig


def normalise_pair(case, a, b):
    if not case.get("op"):
        return None, None
    if case["op"] == "C19.lex" and isinstance(a, dict) and "toks" in a:
        return a, b
    if isinstance(b, dict) and b.get("notModelled"):
        # a terminal of pymbolic's own parser (number, parenthesis, keyword used as a name, …)
        ctx.count("model:terminal-not-dagrts")
        return None, None
    if case["op"] == "C19.name" and isinstance(a, dict) and a.get("notModelled"):
        return None, None
    return a, b


# ---------------------------------------------------------------- oracle

def vars_of(j, acc):
    k = j[0]
    if k == "v":
        acc.add(j[1])
    elif k in ("+", "*", "and", "or", "min", "max"):
        for c in j[1]:
            vars_of(c, acc)
    elif k in ("/", "**", "sub"):
        vars_of(j[1], acc)
        vars_of(j[2], acc)
    elif k == "call":
        acc.add(j[1])
        for c in j[2]:
            vars_of(c, acc)
        for _k, v in j[3]:
            vars_of(v, acc)
    elif k in ("attr", "not"):
        vars_of(j[1], acc)
    elif k == "cmp":
        vars_of(j[2], acc)
        vars_of(j[3], acc)
    elif k == "if":
        for c in j[1:]:
            vars_of(c, acc)


class Skip(Exception):
    pass


def F(salt, name, args, kw):
    blob = repr((salt, name, [str(a) for a in args], sorted((k, str(v)) for k, v in kw))).encode()
    return Fraction(zlib.crc32(blob) % 13 - 6)


def ev(j, env, salt):
    k = j[0]
    if k == "c":
        return Fraction(j[1])
    if k == "cf":
        return Fraction(float(j[1]))
    if k == "cb":
        return Fraction(int(j[1]))
    if k == "v":
        return env[j[1]]
    if k == "+":
        return sum((ev(c, env, salt) for c in j[1]), Fraction(0))
    if k == "*":
        r = Fraction(1)
        for c in j[1]:
            r *= ev(c, env, salt)
        return r
    if k == "/":
        d = ev(j[2], env, salt)
        if d == 0:
            raise Skip()
        return ev(j[1], env, salt) / d
    if k == "**":
        b, x = ev(j[1], env, salt), ev(j[2], env, salt)
        if x.denominator != 1 or not (0 <= x <= 4):
            raise Skip()
        return b ** int(x)
    if k == "call":
        return F(salt, j[1], [ev(c, env, salt) for c in j[2]], [(kk, ev(v, env, salt)) for kk, v in j[3]])
    if k == "sub":
        return F(salt, "<sub>", [ev(j[1], env, salt), ev(j[2], env, salt)], [])
    if k == "attr":
        return F(salt, "<attr>" + j[2], [ev(j[1], env, salt)], [])
    if k == "cmp":
        a, b = ev(j[2], env, salt), ev(j[3], env, salt)
        return Fraction(int({"<": a < b, "<=": a <= b, ">": a > b, ">=": a >= b, "==": a == b, "!=": a != b}[j[1]]))
    if k == "not":
        return Fraction(int(ev(j[1], env, salt) == 0))
    if k == "and":
        return Fraction(int(all(ev(c, env, salt) != 0 for c in j[1])))
    if k == "or":
        return Fraction(int(any(ev(c, env, salt) != 0 for c in j[1])))
    if k == "if":
        return ev(j[2], env, salt) if ev(j[1], env, salt) != 0 else ev(j[3], env, salt)
    raise Skip()


def comma_after_ifelse(j, in_list=False, last=True):
    """a conditional expression that is followed by a comma at the same bracket level when printed"""
    if not isinstance(j, list) or not j:
        return False
    k = j[0]
    if k == "if":
        if in_list and not last:
            return True
        return any(comma_after_ifelse(c) for c in j[1:])
    if k == "call":
        items = list(j[2]) + [v for _k, v in j[3]]
        return any(comma_after_ifelse(c, True, i == len(items) - 1) for i, c in enumerate(items))
    if k in ("+", "*", "and", "or"):
        # the LAST operand of an operator chain ends where the chain ends
        return any(comma_after_ifelse(c, in_list and i == len(j[1]) - 1, last) if i == len(j[1]) - 1 else comma_after_ifelse(c)
                   for i, c in enumerate(j[1]))
    if k in ("/", "**", "cmp"):
        ops = j[1:] if k != "cmp" else j[2:]
        return any(comma_after_ifelse(c, in_list and i == len(ops) - 1, last) if i == len(ops) - 1 else comma_after_ifelse(c)
                   for i, c in enumerate(ops))
    if k == "not":
        return comma_after_ifelse(j[1], in_list, last)
    if k == "sub":
        return comma_after_ifelse(j[1]) or comma_after_ifelse(j[2])
    if k == "attr":
        return comma_after_ifelse(j[1])
    return False


def oracle(case, out):
    if case.get("op") or not isinstance(out, dict):
        if isinstance(out, dict) and "harness_error" in out:
            return {"what": "the parser could not be called: " + out["harness_error"] + ": " + out.get("msg", "")}
        return None
    if "harness_error" in out:
        return {"what": "round trip could not be run: " + out["harness_error"] + ": " + out.get("msg", "")}
    lazy = comma_after_ifelse(case["expr"])
    if "error" in out:
        return {"what": f"printed form {out['printed']!r} does not parse back: {out['error']}", "sig": "does-not-parse",
                "ifelse_comma": lazy}
    if out["printed2"] != out["printed"]:
        return {"what": f"{out['printed']!r} parses to an expression that prints as {out['printed2']!r}", "sig": "prints-differently",
                "ifelse_comma": lazy}
    if out.get("reparsed") is None:
        return None
    v1, v2 = set(), set()
    vars_of(case["expr"], v1)
    vars_of(out["reparsed"], v2)
    if v1 != v2:
        return {"what": f"variables differ after the round trip of {out['printed']!r}: {sorted(v1 ^ v2)}", "sig": "variables-differ",
                "ifelse_comma": lazy}
    import random
    rr = random.Random(zlib.crc32(repr(case["expr"]).encode()))
    for salt in range(2):
        for _ in range(3 if salt == 0 else 2):
            env = {v: Fraction(rr.choice([-2, -1, 0, 1, 2, 3, 2 ** 53])) for v in v1}
            try:
                a, b = ev(case["expr"], env, salt), ev(out["reparsed"], env, salt)
            except Skip:
                continue
            if a != b:
                return {"what": f"value changed by the round trip of {out['printed']!r}: {a} -> {b}", "sig": "value-differs",
                        "ifelse_comma": lazy}
    # constants keep their type (int vs float twins)
    if consts(case["expr"]) != consts(out["reparsed"]):
        return {"what": f"constants changed by the round trip of {out['printed']!r}: {consts(case['expr'])} -> {consts(out['reparsed'])}",
                "sig": "constants-differ", "ifelse_comma": lazy}
    return None


def consts(j):
    out = []

    def rec(x):
        if isinstance(x, list) and x:
            if x[0] in ("c", "cf", "cb"):
                out.append((x[0], str(x[1])))
            else:
                for y in x:
                    rec(y)
    rec(j)
    return sorted(out)


def depth(j):
    if not isinstance(j, list):
        return 0
    return 1 + max([depth(x) for x in j] + [0])


def nontrivial(case, out):
    if case.get("op"):
        return "<" in case.get("s", "") or "`" in case.get("s", "") or case["op"] == "C19.unquote"
    return depth(case["expr"]) >= 4


def shrink(case, still_fails):
    if case.get("op"):
        return case
    import c17
    cur = case
    changed = True
    while changed:
        changed = False
        for cand in c17.shrink_expr(cur["expr"]):
            c2 = dict(cur, expr=cand)
            if still_fails(c2):
                cur = c2
                changed = True
                break
    return cur


def power_base_of_power(j):
    if isinstance(j, list) and j:
        if j[0] == "**" and isinstance(j[1], list) and j[1] and j[1][0] == "**":
            return True
        return any(power_base_of_power(x) for x in j)
    return False


def cmp_operand_of_cmp(j):
    if isinstance(j, list) and j:
        if j[0] == "cmp" and any(isinstance(x, list) and x and x[0] == "cmp" for x in j[2:4]):
            return True
        return any(cmp_operand_of_cmp(x) for x in j)
    return False


@matcher
def comparison_as_operand_of_comparison(case, fail, **kw):
    return (fail.get("sig") in ("does-not-parse", "prints-differently", "variables-differ", "value-differs")
            and cmp_operand_of_cmp(case.get("expr")))


@matcher
def power_as_base_of_power(case, fail, **kw):
    return fail.get("sig") == "value-differs" and power_base_of_power(case.get("expr"))


@matcher
def ifelse_followed_by_comma(case, fail, **kw):
    return bool(fail.get("ifelse_comma")) and fail.get("sig") in ("does-not-parse", "prints-differently", "variables-differ", "value-differs")
