"""C14 — kind inference is order-independent; unify is a partial join."""
import itertools
import os

import kinds_common as kc
from common import LEAN, matcher

ID = "C14"
SOURCES = ["dagrt/data.py", "dagrt/function_registry.py", "dagrt/utils.py"]
RULE = ("(1) unify: all 100 pairs over {None, Boolean, Integer, Scalar x2, Array x2, UserType a/b/c} compared with the model "
        "(and written to Generated/UnifyTable.lean, checked = model by `decide`); all 1000 triples checked for associativity, "
        "pairs for commutativity/idempotence on the real function. (2) inference: random programs (1-8 statements, 1-2 phases, "
        "assignments incl. subscripts/loops, multi-result calls, built-ins with positional/keyword arguments, user functions of fixed "
        "kinds, unknown functions, flags) in their written order and in permuted statement/phase orders; compared: the exact table "
        "or exception class of SymbolKindFinder vs. the Lean model; oracle: tables of 6 permutations must coincide. "
        "Non-trivial: inference succeeded with >= 3 table entries, or a unify pair with both kinds known.")
TRUSTED = ["pymbolic.flatten is applied on the harness side (third party); the model receives the flattened expression",
           "registry modelled: built-ins' get_result_kinds + FixedResultKindsFunction; resolve_args"]
extra_targets = ["Dagrt.Generated.UnifyTable"]


def unify_real(a, b):
    from dagrt.data import unify
    try:
        return {"ok": kc.kind_js(unify(kc.kind_py(a), kc.kind_py(b)))}
    except Exception as e:
        return {"err": type(e).__name__}


def lean_kind(j):
    if j is None:
        return "none"
    if j == "B":
        return "(some .boolean)"
    if j == "I":
        return "(some .integer)"
    b = "true" if j[1] is True else "false"
    if j[0] == "S":
        return f"(some (.scalar {b}))"
    if j[0] == "A":
        return f"(some (.array {b}))"
    return f'(some (.user "{j[1]}"))'


LEAN_ERR = {"ValueError": ".valueError", "AssertionError": ".assertion"}


def pre_build(ctx):
    rows = []
    for a in kc.UNIVERSE:
        for b in kc.UNIVERSE:
            r = unify_real(a, b)
            if "ok" in r:
                res = f"(.ok {lean_kind(r['ok'])})"
            else:
                res = f"(.error {LEAN_ERR.get(r['err'], '.typeError')})"
            rows.append(f"  ({lean_kind(a)}, {lean_kind(b)}, {res})")
    body = ("/- GENERATED on every run by harness/c14.py from the real dagrt.data.unify — do not edit -/\n"
            "import Dagrt.Model.Kinds\nnamespace Dagrt.Generated\nopen Dagrt.Kinds\n\n"
            "def unifyTable : List (Option Kind × Option Kind × Except KErr (Option Kind)) := [\n"
            + ",\n".join(rows) + "]\n\n"
            "/-- the real function, tabulated, equals the model on the whole universe -/\n"
            "theorem unifyTable_eq_model : unifyTable.all (fun (a, b, r) => decide (unify a b = r)) = true := by decide\n\n"
            "end Dagrt.Generated\n")
    path = os.path.join(LEAN, "Dagrt", "Generated", "UnifyTable.lean")
    old = open(path).read() if os.path.exists(path) else None
    if old != body:
        with open(path, "w") as f:
            f.write(body)


def cases(rng, tier):
    for a in kc.UNIVERSE:
        for b in kc.UNIVERSE:
            yield {"op": "C14.unify", "tag": "unify-pair", "a": a, "b": b}
    for a, b, c in itertools.product(kc.UNIVERSE, repeat=3):
        yield {"tag": "unify-triple", "a": a, "b": b, "c": c}
    # tiny alphabet, exhaustive: every sequence of <= 4 copy/constant assignments over x, y, z
    _GROUPS.clear()
    stmts = [[lhs, rhs] for lhs in "xyz" for rhs in (["cf", "1.0"], ["cz", "1j"], ["v", "x"], ["v", "y"], ["v", "z"])
             if rhs != ["v", lhs]]
    for ln in (1, 2, 3, 4):
        for seq in itertools.product(range(len(stmts)), repeat=ln):
            if ln == 4 and tier == "quick" and len(set(seq)) < 4:
                continue
            prog = [["p1", ["assign", stmts[i][0], None, stmts[i][1], []]] for i in seq]
            yield {"op": "C14.infer", "tag": f"tiny{ln}", "src": prog, "funcs": [], "group": sorted(seq)}
    # sums / products whose operands get their kinds in different sweeps: every order of small programs in which a
    # sum is first seen with only SOME of its summands known (the rest arrives later, possibly through another phase)
    R, Z = ["cf", "1.0"], ["cz", "1j"]
    small = [
        [["p1", "a", R], ["p1", "b", Z], ["p1", "y", ["+", [["v", "a"], ["v", "b"]]]]],
        [["p1", "a", R], ["p1", "b", Z], ["p1", "y", ["+", [["v", "a"], ["v", "b"]]]], ["p1", "w", ["*", [["v", "y"], R]]]],
        [["p0", "<p>c", Z], ["p1", "a", R], ["p1", "y", ["+", [["v", "a"], ["v", "<p>c"]]]]],
        [["p1", "a", R], ["p1", "b", Z], ["p1", "c", R], ["p1", "y", ["+", [["v", "a"], ["v", "c"], ["v", "b"]]]], ["p1", "u", ["v", "y"]]],
        [["p1", "a", R], ["p1", "a", Z], ["p1", "y", ["+", [["v", "a"], R]]], ["p1", "u", ["*", [["v", "y"], ["v", "y"]]]]],
    ]
    for prog0 in small:
        prog = [[ph, ["assign", lhs, None, rhs, []]] for ph, lhs, rhs in prog0]
        idx = list(range(len(prog)))
        allp = [list(p_) for p_ in itertools.permutations(idx)]
        for start in range(0, len(allp), 8):
            yield {"op": "C14.infer", "tag": "late-summand", "src": prog, "funcs": [], "perms": allp[start:start + 8]}
    # one variable gets an ARRAY kind from two sources, real and complex (table entries that are arrays must still be
    # refined): every order
    arr_small = [
        [["p1", ["callassign", ["w"], "<func>ar", [R], []]], ["p1", ["callassign", ["s", "w"], "<func>two", [R], []]],
         ["p1", ["assign", "u", None, ["v", "w"], []]]],
        [["p1", ["callassign", ["w"], "<builtin>array", [["c", 3]], []]], ["p1", ["assign", "w", ["c", 0], Z, []]],
         ["p1", ["assign", "u", None, ["*", [["v", "w"], R]], []]]],
        [["p0", ["callassign", ["<p>w"], "<func>ar", [R], []]], ["p1", ["callassign", ["s", "<p>w"], "<func>two", [R], []]],
         ["p1", ["assign", "n2", None, ["call", "<builtin>norm_2", [["v", "<p>w"]], []], []]]],
        [["p1", ["callassign", ["w"], "<func>ar", [R], []]], ["p1", ["assign", "w", None, ["*", [["v", "w"], Z]], []]]],
    ]
    for prog in arr_small:
        allp = [list(p_) for p_ in itertools.permutations(range(len(prog)))]
        yield {"op": "C14.infer", "tag": "array-kind-from-two-sources", "src": prog, "funcs": kc.USER_FUNCS, "perms": allp}
    # a multi-result function called with FEWER / MORE assignees than it has results, everything else inferable: the
    # final consistency pass must reject both
    mk_a = ["p1", ["callassign", ["a"], "<func>ar", [R], []]]
    for prog in ([mk_a, ["p1", ["callassign", ["u"], "<builtin>svd", [["v", "a"], ["c", 2]], []]]],
                 [mk_a, ["p1", ["callassign", ["u", "s"], "<builtin>svd", [["v", "a"], ["c", 2]], []]]],
                 [mk_a, ["p1", ["callassign", ["u", "s", "vt", "x"], "<builtin>svd", [["v", "a"], ["c", 2]], []]]],
                 [["p1", ["callassign", ["s"], "<func>two", [R], []]]],
                 [["p1", ["callassign", ["s", "w", "x"], "<func>two", [R], []]]],
                 [["p1", ["callassign", ["s", "w"], "<func>two", [R], []]]]):
        yield {"op": "C14.infer", "tag": "assignee-count", "src": prog, "funcs": kc.USER_FUNCS,
               "perms": [list(range(len(prog))), list(reversed(range(len(prog))))]}
    n = 400 if tier == "quick" else 8000
    for i in range(n):
        prog = kc.rand_program(rng)
        perms = []
        for _ in range(6):
            o = list(range(len(prog)))
            rng.shuffle(o)
            perms.append(o)
        yield {"op": "C14.infer", "tag": "infer", "src": prog, "funcs": kc.USER_FUNCS, "perms": perms}
        for o in perms[:2]:
            yield {"op": "C14.infer", "tag": "infer-permuted", "src": prog, "funcs": kc.USER_FUNCS, "order": o}


def exhaustive(tier):
    return True


def model_input(case):
    if case.get("op") == "C14.infer":
        return {"op": "C14.infer", "prog": kc.model_prog(case["src"], case.get("order")), "funcs": case["funcs"]}
    return case


def impl(case):
    if case.get("tag") == "unify-pair":
        return unify_real(case["a"], case["b"])
    if case.get("tag") == "unify-triple":
        a, b, c = case["a"], case["b"], case["c"]
        ab = unify_real(a, b)
        l = unify_real(ab["ok"], c) if "ok" in ab else ab
        bc = unify_real(b, c)
        r = unify_real(a, bc["ok"]) if "ok" in bc else bc
        return {"left": l, "right": r}
    r = kc.run_inference(case["src"], case["funcs"], case.get("order"))
    if "perms" in case:
        r["perm_tables"] = [kc.run_inference(case["src"], case["funcs"], o) for o in case["perms"]]
        # the same orders with every phase handed over as a one-shot iterable (the table must not depend on the
        # CONTAINER the statements arrive in)
        r["gen_tables"] = [kc.run_inference(case["src"], case["funcs"], o, as_generators=True)
                           for o in [case.get("order")] + list(case["perms"])]
    return r


def normalise(out):
    if isinstance(out, dict):
        out = {k: v for k, v in out.items() if k not in ("perm_tables", "gen_tables", "printed")}
    return out


_GROUPS = {}


def defined(r):
    return "ok" in r


def oracle(case, out):
    tag = case.get("tag")
    if tag == "unify-pair":
        a, b = case["a"], case["b"]
        rev = unify_real(b, a)
        if defined(out) != defined(rev) or (defined(out) and out["ok"] != rev["ok"]):
            return {"what": f"unify not commutative on ({a}, {b}): {out} vs {rev}", "sig": "comm"}
        if a == b and defined(out) and out["ok"] != a:
            return {"what": f"unify not idempotent on {a}: {out}", "sig": "idem"}
        return None
    if tag == "unify-triple":
        l, r = out["left"], out["right"]
        if defined(l) != defined(r) or (defined(l) and l["ok"] != r["ok"]):
            return {"what": f"unify not associative on ({case['a']}, {case['b']}, {case['c']}): {l} vs {r}", "sig": "assoc"}
        return None
    if "group" in case:
        key = tuple(case["group"])
        mine = out.get("ok", "no-table")
        if key not in _GROUPS:
            _GROUPS[key] = (mine, case["src"])
        elif _GROUPS[key][0] != mine:
            return {"what": f"kind table depends on statement order: {_GROUPS[key][1]} -> {_GROUPS[key][0]}, "
                            f"{case['src']} -> {mine}", "sig": "order", "printed": bool(out.get("printed"))}
        return None
    if "gen_tables" in out:
        lists = [out] + list(out.get("perm_tables", []))
        for o, t, tl in zip([case.get("order")] + list(case["perms"]), out["gen_tables"], lists):
            t2 = t.get("ok", "no-table")
            base = tl.get("ok", "no-table")
            if t2 != base:
                return {"what": f"kind table depends on the container the statements are presented in: lists -> {base}, "
                                f"one-shot iterables (order {o}) -> {t2}", "sig": "container",
                        "printed": bool(out.get("printed") or t.get("printed"))}
    if "perm_tables" in out:
        # the property speaks about the table produced: orders on which inference fails produce none;
        # which exception is raised first may legitimately depend on the order
        base = out.get("ok", "no-table")
        for o, t in zip(case["perms"], out["perm_tables"]):
            t2 = t.get("ok", "no-table")
            if t2 != base:
                return {"what": f"kind table depends on statement order: written order -> {base}, order {o} -> {t2}",
                        "sig": "order", "printed": bool(out.get("printed") or t.get("printed"))}
    return None


def nontrivial(case, out):
    if case.get("tag") == "unify-pair":
        return case["a"] is not None and case["b"] is not None
    if case.get("tag") == "unify-triple":
        return None not in (case["a"], case["b"], case["c"])
    return "ok" in out and len(out["ok"]) >= 3


def shrink(case, still_fails):
    if case.get("tag") not in ("infer",) or "perms" not in case:
        return case
    cur = case
    changed = True
    while changed:
        changed = False
        n = len(cur["src"])
        for i in range(n):
            src = cur["src"][:i] + cur["src"][i + 1:]
            perms = []
            for o in cur["perms"]:
                o2 = [x - (1 if x > i else 0) for x in o if x != i]
                perms.append(o2)
            c2 = dict(cur, src=src, perms=perms)
            if still_fails(c2):
                cur = c2
                changed = True
                break
    return cur


@matcher
def set_with_incompatible_kinds(case, fail, **kw):
    """order dependence caused by SymbolKindTable.set meeting two kinds that do not unify
    (the real code prints 'trying to derive kind ...' and keeps the first)"""
    return fail.get("sig") == "order" and bool(fail.get("printed"))
