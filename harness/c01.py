"""C01 — interpreter and generated Python stepper both implement the written program."""
import copy

import c02
import sem_common as sc
import ser

ID = "C01"
SOURCES = ["dagrt/language.py", "dagrt/exec_numpy.py", "dagrt/expression.py", "dagrt/codegen/python.py",
           "dagrt/codegen/dag_ast.py", "dagrt/codegen/codegen_base.py", "dagrt/codegen/expressions.py",
           "dagrt/builtins_python.py", "dagrt/function_registry.py", "dagrt/utils.py"]
RULE = ("random multi-phase methods (bootstrap phase + 1-3 phases, 1-12 builder calls each: plain / subscripted / looped "
        "assignments incl. zero-trip loops and bounds held in variables assigned under the same guard, if_/else_ nested to depth 3 "
        "with else-branches followed by failures, multi-result and keyword calls of user functions, built-ins, conditional "
        "expressions nested in either branch, min/max, yields, fail_step, switch_phase, raise_, <t> advanced by <dt>) built through "
        "the REAL CodeBuilder API; every temporary is assigned before it is read on every path (the two back ends differ on "
        "undefined reads: None vs. UnboundLocalError - outside the property). Each method runs with max_steps in 1..5 and "
        "sometimes an end time, on random initial states, through (1) the REAL NumpyInterpreter, (2) the class emitted by the "
        "REAL Python CodeGenerator (exec'd), (3) an independent program-order executor in Python, (4) the Lean reference "
        "semantics. Compared exactly: every event (yielded value, time, time id, component; completed/failed with t, dt, current "
        "and next phase; name of the raised error condition), the persistent variables and next_phase after every step. "
        "Non-trivial: >= 2 steps ran and >= 1 value was yielded.")
TRUSTED = ["CPython executing the emitted text, numpy arithmetic on exact small integers",
           "the expression printer / name manager / line wrapper of the Python target are exercised end to end, not modelled here (C13, C20 model the latter two)",
           "<builtin>array is replaced on both sides by a variant that fills with NaN (the real one returns uninitialised memory)"]
ASSUMPTIONS = ["DefinedBeforeUse: every temporary is assigned before it is read on every executed path",
               "no aliasing of arrays by plain assignment (known finding of C02: Python reference semantics)",
               "values stay exact integers / integer arrays"]

PHASES = ["p0", "p1", "p2"]


# ---------------------------------------------------------------- generator

class Env:
    def __init__(self, ints, arrs, flags, counters=None):
        self.ints, self.arrs, self.flags = list(ints), list(arrs), list(flags)
        self.counters = dict(counters or {})

    def copy(self):
        return Env(self.ints, self.arrs, self.flags, self.counters)

    def d(self):
        return {"ints": self.ints, "arrs": self.arrs, "flags": self.flags, "counters": self.counters}

    def add_int(self, n):
        if n not in self.ints:
            self.ints.append(n)

    def add_arr(self, n):
        if n not in self.arrs:
            self.arrs.append(n)


def no_call(e):
    """CodeBuilder.assign refuses a subscripted left-hand side when the right-hand side is a bare call"""
    return ["+", [e, ["c", 1]]] if e[0] == "call" else e


def fix_attr(j):
    """`3.real` is not Python: pymbolic prints a Lookup on a literal without parentheses (not dagrt's printer)"""
    if isinstance(j, list):
        if j and j[0] == "attr" and j[1][0] != "v":
            return ["attr", ["v", "<state>y"], j[2]]
        return [fix_attr(x) for x in j]
    return j


def g_cond_expr(rng, env):
    """nested conditional expressions (either branch), the shapes the printer must parenthesise"""
    d = env.d()
    inner = ["if", sc.g_bool(rng, 0, d), sc.g_int(rng, 0, d), sc.g_int(rng, 0, d)]
    q = rng.random()
    if q < 0.4:
        return ["if", sc.g_bool(rng, 0, d), inner, sc.g_int(rng, 0, d)]
    if q < 0.7:
        return ["if", sc.g_bool(rng, 0, d), sc.g_int(rng, 0, d), inner]
    if q < 0.85:
        return ["+", [inner, sc.g_int(rng, 0, d)]]
    return ["if", inner[1], ["*", [inner, ["c", 2]]], ["if", sc.g_bool(rng, 0, d), ["c", 1], inner]]


def g_stmts(rng, env, phases, depth):
    """one builder 'action' = list of ops; updates env with what is defined afterwards"""
    d = env.d()
    r = rng.random()
    if r < 0.22:
        lhs = rng.choice(["a", "b", "c", "t1", "t2", "<state>y"] + (["<p>k"] if "<p>k" in env.ints else []))
        rhs = g_cond_expr(rng, env) if rng.random() < 0.2 else sc.g_int(rng, rng.choice([0, 1, 2, 2]), d)
        env.add_int(lhs)
        return [["stmt", ["assign", lhs, None, rhs, []]]]
    if r < 0.27:
        return [["stmt", ["assign", "<t>", None, ["+", [["v", "<t>"], ["v", "<dt>"]]], []]]]
    if r < 0.33:
        which = rng.choice(["n", "j"])
        env.add_int(which)
        return [["stmt", ["assign", which, None, ["c", rng.randint(0, sc.ARR_LEN if which == "n" else sc.ARR_LEN - 1)], []]]]
    if r < 0.39:
        # create an array and fill it completely
        name = rng.choice(["u", "w"])
        env2 = env.copy()
        env2.counters["i"] = (0, sc.ARR_LEN)
        ops = [["stmt", ["call", [name], "<builtin>array", [["c", sc.ARR_LEN]], []]],
               ["stmt", ["assign", name, ["v", "i"], no_call(sc.g_int(rng, 1, env2.d())), [["i", ["c", 0], ["c", sc.ARR_LEN]]]]]]
        env.add_arr(name)
        return ops
    if r < 0.47 and env.arrs:
        return [["stmt", ["assign", rng.choice(env.arrs), sc.g_index(rng, d), no_call(sc.g_int(rng, rng.choice([0, 1]), d)), []]]]
    if r < 0.57 and env.arrs:
        lo = rng.randint(0, 2)
        if "n" in env.ints and rng.random() < 0.5:
            hi = ["v", "n"]
        else:
            hi = ["c", rng.choice([0, lo, 1, 2, 3, sc.ARR_LEN])]          # zero-trip loops included
        loops = [["i", ["c", lo], hi]]
        env2 = env.copy()
        env2.counters["i"] = (lo, sc.ARR_LEN)
        if rng.random() < 0.3:
            loops.append(["k", ["c", 0], ["v", "i"] if rng.random() < 0.5 else ["c", rng.randint(0, 3)]])
            env2.counters["k"] = (0, sc.ARR_LEN)
        if rng.random() < 0.7:
            return [["stmt", ["assign", rng.choice(env.arrs), ["v", "i"], no_call(sc.g_int(rng, rng.choice([0, 1, 2]), env2.d())), loops]]]
        lhs = rng.choice([x for x in ["a", "b", "t1"] if x in env.ints] or ["<state>y"])
        return [["stmt", ["assign", lhs, None, ["+", [["v", lhs], sc.g_int(rng, 1, env2.d())]], loops]]]
    if r < 0.66:
        q = rng.random()
        if q < 0.4:
            l1, l2 = rng.choice(["t1", "a"]), rng.choice(["t2", "b"])
            ops = [["stmt", ["call", [l1, l2], "<func>h", [sc.g_int(rng, 1, d)], []]]]
            env.add_int(l1)
            env.add_int(l2)
            return ops
        if q < 0.75:
            l1 = rng.choice(["t1", "c"])
            ops = [["stmt", ["call", [l1], "<func>g", [sc.g_int(rng, 1, d)], [["y", sc.g_int(rng, 1, d)]]]]]
            env.add_int(l1)
            return ops
        l1 = rng.choice(["t2", "b"])
        ops = [["stmt", ["call", [l1], "<func>f", [], [["x", sc.g_int(rng, 1, d)]]]]]
        env.add_int(l1)
        return ops
    if r < 0.70:
        ops = [["stmt", ["assign", "fl", None, sc.g_bool(rng, 1, d), []]]]
        env.flags.append("fl") if "fl" not in env.flags else None
        return ops
    if r < 0.80:
        e = sc.g_int(rng, 1, d) if rng.random() < 0.75 or not env.arrs else ["v", rng.choice(env.arrs)]
        return [["stmt", ["yield", e, ["v", "<t>"] if rng.random() < 0.7 else sc.g_int(rng, 0, d),
                          rng.choice(["final", "mid"]), rng.choice(["y", "z"])]]]
    if r < 0.815:
        return [["stmt", ["fail"]]]
    if r < 0.84:
        return [["stmt", ["switch", rng.choice(phases)]]]
    if r < 0.85:
        return [["stmt", ["raise", rng.choice(["ErrA", "ErrB"])]]]
    if r < 0.87:
        return [["fresh", rng.choice(["temp", "<cond>", "a", "t1"])]]
    if depth >= 3:
        return []
    # if / else: what a block defines is not defined afterwards
    ops = [["if", sc.g_bool(rng, 1, d)]]
    inner = env.copy()
    for _ in range(rng.randint(1, 3)):
        ops += g_stmts(rng, inner, phases, depth + 1)
    ops.append(["endif"])
    if rng.random() < 0.55:
        ops.append(["else"])
        inner = env.copy()
        for _ in range(rng.randint(1, 2)):
            ops += g_stmts(rng, inner, phases, depth + 1)
        if rng.random() < 0.15:
            ops.append(["stmt", ["fail"]])
        ops.append(["endelse"])
    return ops


def g_phase(rng, phases, persistent_ints):
    env = Env(persistent_ints, ["<state>v"], [])
    ops = []
    for _ in range(rng.randint(1, 7)):
        ops += g_stmts(rng, env, phases, 0)
    return fix_attr(ops)


def g_method(rng):
    n = rng.randint(1, 3)
    phases = PHASES[:n]
    pints = ["<state>y", "<t>", "<dt>", "<p>k"]
    out = [{"name": "init", "next": "p0",
            "prog": [["stmt", ["assign", "<p>k", None, ["c", rng.randint(-2, 4)], []]]]
            + (g_phase(rng, phases, ["<state>y", "<t>", "<dt>", "<p>k"]) if rng.random() < 0.3 else [])}]
    for p in phases:
        out.append({"name": p, "next": rng.choice(phases), "prog": g_phase(rng, phases, pints)})
    return out


def g_case(rng):
    c = {"op": "C01.run", "tag": "random", "phases": g_method(rng), "initial": "init",
         "y0": rng.randint(-3, 5), "v0": [rng.randint(-4, 8) for _ in range(sc.ARR_LEN)],
         "t0": rng.randint(0, 2), "dt": rng.choice([1, 1, 2]),
         "max_steps": rng.randint(1, 5), "t_end": rng.choice([None, None, 3, 5]), "max_iters": 7}
    if rng.random() < 0.25:
        # the builder API takes text as well as expression objects: plain variables and numbers handed over as text
        c["str_args"] = True
        c["tag"] = "random+text-arguments"
    return c


# systematic part: every operator nested in every operand position of every operator (what the Python
# expression printer must parenthesise), observed through yields

Y, T, K = ["v", "<state>y"], ["v", "<t>"], ["v", "<p>k"]
INT_OPS = {
    "+": ("II", lambda a, b: ["+", [a, b]]),
    "*": ("II", lambda a, b: ["*", [a, b]]),
    "neg": ("I", lambda a: ["*", [["c", -1], a]]),
    "/": ("I", lambda a: ["/", a, ["c", -1]]),
    "**": ("I", lambda a: ["**", a, ["c", 3]]),          # exponents 3 and 2: (x**3)**2 = x**6, but x**3**2 = x**9
    "sq": ("I", lambda a: ["**", a, ["c", 2]]),
    "if": ("BII", lambda c, a, b: ["if", c, a, b]),
    "min": ("II", lambda a, b: ["min", [a, b]]),
    "max": ("II", lambda a, b: ["max", [a, b]]),
    "f": ("I", lambda a: ["call", "<func>f", [a], []]),
    "gkw": ("II", lambda a, b: ["call", "<func>g", [a], [["y", b]]]),
    "sub": ("B", lambda c: ["sub", ["v", "<state>v"], ["if", c, ["c", 1], ["c", -1]]]),
    "real": ("I", lambda a: ["attr", a, "real"]),
}
BOOL_OPS = {
    "<": ("II", lambda a, b: ["cmp", "<", a, b]),
    "==": ("II", lambda a, b: ["cmp", "==", a, b]),
    "beq": ("BB", lambda a, b: ["cmp", "==", a, b]),      # truth values compared: Python would CHAIN `a < b == c < d`
    "bne": ("BB", lambda a, b: ["cmp", "!=", a, b]),
    "not": ("B", lambda a: ["not", a]),
    "and": ("BB", lambda a, b: ["and", [a, b]]),
    "or": ("BB", lambda a, b: ["or", [a, b]]),
}


def leaf(rng, ty):
    if ty == "I":
        return rng.choice([Y, T, K, ["c", 2], ["c", -3], Y, K])
    return ["cmp", rng.choice(["<", ">=", "==", "!="]), rng.choice([Y, T, K]), rng.choice([K, ["c", 1], ["c", 3], T])]


def depth2(rng):
    """(type, expression) for every (outer operator, operand slot, inner operator)"""
    out = []
    table = {"I": INT_OPS, "B": BOOL_OPS}
    for oty in "IB":
        for oname, (osig, omk) in table[oty].items():
            for slot, sty in enumerate(osig):
                for iname, (isig, imk) in table[sty].items():
                    if oname == "real" and iname in ("neg", "/"):
                        continue        # pymbolic prints `(-1*y).real` without the parentheses: not dagrt's printer
                    inner = imk(*[leaf(rng, t) for t in isig])
                    args = [leaf(rng, t) for t in osig]
                    args[slot] = inner
                    out.append((oty, fix_attr(omk(*args)), f"{oname}[{slot}]<-{iname}"))
    # a conditional inside a branch of a conditional, under all four truth combinations, with three distinct values
    # (whether a wrong grouping shows depends on exactly which condition holds)
    tt, ff = ["cmp", "<", ["c", 1], ["c", 2]], ["cmp", "<", ["v", "<dt>"], ["c", 0]]
    for slot in (1, 2):
        for ci in (tt, ff):
            for co in (tt, ff):
                inner = ["if", ci, ["c", 11], ["c", 22]]
                args = [co, ["c", 33], ["c", 44]]
                args[slot] = inner
                out.append(("I", ["if"] + args, f"if[{slot}]<-if:{int(ci is tt)}{int(co is tt)}"))
    return out


def depth2_mixed(rng):
    """truth values where numbers are expected and numbers where truth values are expected (Python: a bool is
    the integer 0 / 1, a number is true iff non-zero): what the printer must parenthesise does not depend on the
    types, and `not` binds more loosely in Python than comparisons and arithmetic do"""
    out = []
    ints = {k: INT_OPS[k] for k in ("+", "*", "neg", "**", "min", "max", "if", "f")}
    bools = BOOL_OPS
    # a truth-valued operator in a number slot of an arithmetic / comparison operator
    for oty, table in (("I", ints), ("B", {k: BOOL_OPS[k] for k in ("<", "==")})):
        for oname, (osig, omk) in table.items():
            for slot, sty in enumerate(osig):
                if sty != "I":
                    continue
                for iname, (isig, imk) in bools.items():
                    inner = imk(*[leaf(rng, t) for t in isig])
                    args = [leaf(rng, t) for t in osig]
                    args[slot] = inner
                    out.append((oty, omk(*args), f"mixed:{oname}[{slot}]<-{iname}"))
    # a number-valued operator in a truth-value slot
    for oty, table in (("B", {k: BOOL_OPS[k] for k in ("not", "and", "or")}), ("I", {"if": INT_OPS["if"]})):
        for oname, (osig, omk) in table.items():
            for slot, sty in enumerate(osig):
                if sty != "B":
                    continue
                for iname in ("+", "*", "neg", "min", "if"):
                    isig, imk = INT_OPS[iname]
                    inner = imk(*[leaf(rng, t) for t in isig])
                    args = [leaf(rng, t) for t in osig]
                    args[slot] = inner
                    out.append((oty, omk(*args), f"mixed:{oname}[{slot}]<-{iname}"))
    return out


def expr_cases(rng, tier):
    for mixed in (False, True):
        yield from expr_cases_of(rng, tier, mixed)


def expr_cases_of(rng, tier, mixed):
    exprs = depth2_mixed(rng) if mixed else depth2(rng)
    per = 24
    for start in range(0, len(exprs), per):
        chunk = exprs[start:start + per]
        prog = []
        for k, (ty, e, label) in enumerate(chunk):
            if ty == "I":
                prog.append(["stmt", ["yield", e, ["c", k], "final", "y"]])
            else:
                prog.append(["stmt", ["assign", "fl", None, e, []]])
                prog.append(["stmt", ["yield", ["if", ["v", "fl"], ["c", 1], ["c", 0]], ["c", k], "final", "z"]])
        for rep in range(2 if tier == "quick" else 6):
            # the mixed-type family is decided on the real back ends and the Python reference only: the Lean
            # model's values keep truth values and numbers apart (mixing them is its poison value)
            yield {"op": None if mixed else "C01.run", "tag": "printer-mixed-types" if mixed else "printer-depth2",
                   **({"mixed": True} if mixed else {}), "initial": "init",
                   "phases": [{"name": "init", "next": "p0", "prog": [["stmt", ["assign", "<p>k", None, ["c", rng.randint(-2, 4)], []]]]},
                              {"name": "p0", "next": "p0", "prog": prog}],
                   "y0": rng.randint(-3, 5), "v0": [rng.randint(-4, 8) for _ in range(sc.ARR_LEN)],
                   "t0": rng.randint(0, 3), "dt": 1, "max_steps": 2, "t_end": None, "max_iters": 3,
                   "labels": [c[2] for c in chunk]}


def guarded_partial_cases(rng, tier):
    """the written program GUARDS an operation that cannot be carried out for some values (division by zero, an
    index outside an array) by failing / raising / switching first; the statement with the partial operation only
    touches per-step temporaries, so nothing but the order of the builder calls keeps it behind its guard"""
    for _ in range(40 if tier == "quick" else 600):
        c0 = rng.randint(0, 4)
        y0 = c0 + rng.choice([0, 0, 1, 2, 3, -1, -2])            # d = y - c0 is 0 in about a third of the cases
        exit_ = rng.choice([["raise", "ErrA"], ["fail"], ["switch", "other"]])
        shape = rng.randrange(2)          # (subscripts need integer-typed values: the state components are floats)
        prog = [["stmt", ["assign", "d", None, ["+", [["v", "<state>y"], ["c", -c0]]], []]]]
        if shape == 0:
            prog += [["if", ["cmp", "==", ["v", "d"], ["c", 0]]], ["stmt", exit_], ["endif"],
                     ["stmt", ["assign", "q", None, ["/", ["c", 12], ["v", "d"]], []]]]
        elif shape == 1:
            # the guard AFTER a partial operation that is fine, a second partial operation behind it
            prog += [["stmt", ["assign", "q0", None, ["/", ["c", 12], ["c", 3]], []]],
                     ["if", ["cmp", "==", ["v", "d"], ["c", 0]]], ["stmt", exit_], ["endif"],
                     ["stmt", ["assign", "q", None, ["+", [["v", "q0"], ["/", ["c", 12], ["v", "d"]]]], []]]]
        else:
            # an index that is only valid behind the guard
            prog += [["if", ["cmp", "==", ["v", "d"], ["c", 0]]], ["stmt", exit_], ["endif"],
                     ["stmt", ["assign", "q", None, ["sub", ["v", "<state>v"], ["+", [["v", "d"], ["c", -1 + 100 * 0]]]], []]]]
            y0 = c0 + rng.choice([0, 0, 1, 2, 3, 4])
        prog += [["stmt", ["assign", "<state>y", None, ["+", [["v", "<state>y"], ["v", "q"]]], []]],
                 ["stmt", ["yield", ["v", "<state>y"], ["v", "<t>"], "final", "y"]]]
        other = [["stmt", ["assign", "<state>y", None, ["+", [["v", "<state>y"], ["c", 1]]], []]]]
        yield {"op": "C01.run", "tag": "guarded-partial-operation", "initial": "p0",
               "phases": [{"name": "p0", "next": "p0", "prog": prog}, {"name": "other", "next": "p0", "prog": other}],
               "y0": y0, "v0": [rng.randint(-4, 8) for _ in range(sc.ARR_LEN)], "t0": 0, "dt": 1,
               "max_steps": 3, "t_end": None, "max_iters": 4}


def cases(rng, tier):
    yield from expr_cases(rng, tier)
    yield from guarded_partial_cases(rng, tier)
    for k in range(400 if tier == "quick" else 8000):
        c = g_case(rng)
        if k % 3 == 2:
            c["drive"] = "single"          # stepped by hand through run_single_step()
            c["tag"] = c.get("tag", "random") + "-single-steps"
        yield c


# ---------------------------------------------------------------- the real back ends

ALL_OBSERVE = ["<t>", "<dt>", "<state>y", "<state>v", "<p>k"]


def names_in(j, acc):
    if isinstance(j, list):
        if len(j) == 2 and j[0] == "v" and isinstance(j[1], str):
            acc.add(j[1])
        if j and j[0] == "assign":
            acc.add(j[1])
        if j and j[0] == "call" and isinstance(j[1], list):
            acc.update(x for x in j[1] if isinstance(x, str))
        for x in j:
            names_in(x, acc)
    elif isinstance(j, dict):
        for x in j.values():
            names_in(x, acc)


_obs_cache = {}


def observe(case):
    """the persistent variables the built method mentions (the emitted class only stores those; the
    builder may simplify an occurrence away, e.g. `<state>y * 0`)"""
    key = ser_key(case)
    if key not in _obs_cache:
        if len(_obs_cache) > 8:
            _obs_cache.clear()
        code = build_code(case)
        acc = set()
        for ph in code.phases.values():
            for st in ph.statements:
                acc |= set(st.get_read_variables()) | set(st.get_written_variables())
        _obs_cache[key] = [n for n in ALL_OBSERVE if n in ("<t>", "<dt>") or n in acc]
    return _obs_cache[key]


def build_code(case):
    from dagrt.language import CodeBuilder, DAGCode
    phases = []
    for ph in case["phases"]:
        cb = CodeBuilder(ph["name"])
        fresh, failed = c02.drive_builder(cb, ph["prog"], case.get("str_args", False))
        if failed:
            raise ValueError("builder failed")
        phases.append(cb.as_execution_phase(ph["next"]))
    return DAGCode.from_phases_list(phases, case["initial"])


def canon_event(e, kind):
    n = type(e).__name__
    if n == "StateComputed":
        return ["state", sc.val_js(e.t), e.time_id, e.component_id, sc.val_js(copy.deepcopy(e.state_component))]
    if n == "StepCompleted":
        cur = e.current_state if hasattr(e, "current_state") else e.current_phase
        return ["completed", sc.val_js(e.dt), sc.val_js(e.t), cur, e.next_phase]
    if n == "StepFailed":
        return ["failed", sc.val_js(e.t)]
    return ["other", n]


class BackendError(Exception):
    """an exception that is not part of the language (TypeError, IndexError, UnboundLocalError, ...)"""


def run_backend(case, kind, code):
    import numpy as np
    funcs = dict(sc.USER_FUNCS)
    if kind == "interp":
        from dagrt.exec_numpy import NumpyInterpreter
        m = NumpyInterpreter(code, funcs)
        m.functions["<builtin>array"] = sc.b_array

        def get(name):
            return m.context.get(name)
    else:
        from dagrt.codegen.python import CodeGenerator
        cg = CodeGenerator("Method")
        cls = cg.get_class(code)
        cls._builtin_array = staticmethod(sc.b_array)
        m = cls(funcs)
        nm = cg._name_manager

        def get(name):
            attr = nm.name_global(name)
            assert attr.startswith("self.")
            return getattr(m, attr[5:], None)
    m.set_up(t_start=case["t0"], dt_start=case["dt"],
             context={"y": case["y0"], "v": np.array([float(x) for x in case["v0"]])})
    steps = []
    cur = []
    n_iter = 0

    obs = observe(case)

    def snap():
        return {"next": m.next_phase, "vars": [[n, sc.val_js(copy.deepcopy(get(n)))] for n in obs]}
    if case.get("drive") == "single":
        gen = drive_single_steps(m, kind, case)
    else:
        gen = m.run(t_end=case["t_end"], max_steps=case["max_steps"])
    try:
        for e in gen:
            ce = canon_event(e, kind)
            cur.append(ce)
            if ce[0] in ("completed", "failed"):
                steps.append({"events": cur, "after": snap()})
                cur = []
                n_iter += 1
                if n_iter >= case["max_iters"]:
                    break
    except (sc.ErrA, sc.ErrB) as ex:
        cur.append(["raised", type(ex).__name__])
        steps.append({"events": cur, "after": snap()})
    except sc.Inexact:
        raise
    except Exception as ex:
        if type(ex).__name__ == "StepError":
            cur.append(["raised", ex.condition])
            steps.append({"events": cur, "after": snap()})
        else:
            raise BackendError(type(ex).__name__ + ": " + str(ex)[:100])
    finally:
        gen.close()
    return steps


def drive_single_steps(m, kind, case):
    """the loop of run(), written out over the documented single-step entry point run_single_step() (what a caller
    who steps a method by hand does); same events as run()"""
    if kind == "interp":
        import dagrt.exec_numpy as mod
        fail_exc, trans_exc, failed_ev, completed_ev = mod.FailStepException, mod.TransitionEvent, mod.StepFailed, mod.StepCompleted

        def now():
            return m.context["<t>"], m.context["<dt>"]
        kw = "current_state"
    else:
        fail_exc, trans_exc, failed_ev, completed_ev = m.FailStepException, m.TransitionEvent, m.StepFailed, m.StepCompleted

        def now():
            return m.t, m.dt
        kw = "current_phase"
    n_steps = 0
    while True:
        if case["t_end"] is not None and now()[0] >= case["t_end"]:
            return
        if case["max_steps"] is not None and n_steps >= case["max_steps"]:
            return
        cur = m.next_phase
        try:
            yield from m.run_single_step()
        except fail_exc:
            yield failed_ev(t=now()[0])
            continue
        except trans_exc as evt:
            m.next_phase = evt.next_phase
        yield completed_ev(**{"dt": now()[1], "t": now()[0], kw: cur, "next_phase": m.next_phase})
        n_steps += 1


def run_both(case):
    code = build_code(case)
    res = {}
    for kind in ("interp", "gen"):
        try:
            res[kind] = {"steps": run_backend(case, kind, code)}
            if case.get("mixed"):
                res[kind] = boolint(res[kind])
        except BackendError as ex:
            res[kind] = {"error": str(ex)}
    return res


_cache = {}


def both_cached(case):
    key = ser_key(case)
    if key not in _cache:
        if len(_cache) > 4:
            _cache.clear()
        _cache[key] = run_both(case)
    return _cache[key]


def ser_key(case):
    import json
    return json.dumps({k: v for k, v in case.items() if not k.startswith("_") and k != "labels"}, sort_keys=True)


def impl(case):
    try:
        res = both_cached(case)
    except sc.Inexact as ex:
        return {"dropped": "inexact"}
    except ValueError as ex:
        if "builder failed" in str(ex):
            return {"dropped": "builder failed"}
        raise
    try:
        ref = reference(case)
    except RefUndefined as ex:
        if "error" in res["interp"] and "error" in res["gen"]:
            return {"dropped": "both back ends raise " + res["interp"]["error"].split(":")[0]}
        return {"dropped": "no reference semantics: " + str(ex)}
    if "error" in res["interp"] and "error" in res["gen"]:
        # carrying out the builder calls in the order written is defined, yet BOTH back ends raise: not a reason to
        # look away (a builder that loses an ordering edge misleads both back ends alike)
        return {"steps": None, "interp_error": res["interp"]["error"], "gen_error": res["gen"]["error"]}
    if "error" in res["interp"]:
        return {"steps": None, "interp_error": res["interp"]["error"], "gen": res["gen"]}
    return {"steps": res["interp"]["steps"], "gen_same": res["gen"] == res["interp"],
            **({} if res["gen"] == res["interp"] else {"gen": res["gen"]})}


def model_input(case):
    code = build_code(case)
    phases = []
    for ph in case["phases"]:
        stmts = sorted(code.phases[ph["name"]].statements, key=lambda s: c02.idx(s.id))
        phases.append({"name": ph["name"], "next": ph["next"], "ops": c02.model_ops(ph["prog"], stmts)})
    store = [["<t>", case["t0"]], ["<dt>", case["dt"]], ["<state>y", case["y0"]], ["<state>v", ["arr", case["v0"]]]]
    return {"op": "C01.run", "phases": phases, "initial": case["initial"], "store": store, "observe": observe(case),
            "t_end": case["t_end"], "max_steps": case["max_steps"], "max_iters": case["max_iters"]}


def normalise_pair(case, a, b):
    if isinstance(a, dict) and "steps" in a and isinstance(b, dict) and "steps" in b:
        if any(has_undef(s) for s in b["steps"]):
            ctx.count("model:undef")
            return None, None
        return {"steps": a["steps"], "gen_same": a.get("gen_same")}, {"steps": b["steps"], "gen_same": True}
    return a, b


def has_undef(j):
    if j == "undef":
        return True
    if isinstance(j, list):
        return any(has_undef(x) for x in j)
    if isinstance(j, dict):
        return any(has_undef(x) for x in j.values())
    return False


# ---------------------------------------------------------------- independent program-order executor

class RefUndefined(Exception):
    pass


def r_f(x):
    return 2 * x + 1


def r_g(x, y):
    return x - y


def r_h(x):
    return (x + 1, x * 2)


def bind(names, args, kw):
    out = list(args)
    for n in names[len(args):]:
        if n not in kw:
            raise RefUndefined("missing argument")
        out.append(kw[n])
    return out


def r_call(f, args, kw):
    if f == "<func>f":
        return r_f(*bind(["x"], args, kw))
    if f == "<func>g":
        return r_g(*bind(["x", "y"], args, kw))
    if f == "<func>h":
        return r_h(*bind(["x"], args, kw))
    if f == "<builtin>len":
        (x,) = bind(["x"], args, kw)
        return len(x) if isinstance(x, list) else 1
    if f == "<builtin>array":
        (n,) = bind(["n"], args, kw)
        return [None] * int(n)
    raise RefUndefined("function " + f)


_LENIENT = [False]      # mixed-type printer family: a bool is the integer 0 / 1, as in Python


def need_int(v):
    if _LENIENT[0] and isinstance(v, bool):
        return int(v)
    if isinstance(v, bool) or not isinstance(v, int):
        raise RefUndefined("not an integer: " + repr(v)[:30])
    return v


def boolint(j):
    """True / False -> 1 / 0 throughout (mixed-type family: `min(True, 2)` is `True` in one executor, `1` in another)"""
    if isinstance(j, bool):
        return int(j)
    if isinstance(j, list):
        return [boolint(x) for x in j]
    if isinstance(j, dict):
        return {k: boolint(v) for k, v in j.items()}
    return j


def r_eval(j, st, cnt):
    k = j[0]
    if k == "c":
        return j[1]
    if k == "cb":
        return bool(j[1])
    if k == "v":
        if j[1] in cnt:
            return cnt[j[1]]
        if j[1] not in st:
            raise RefUndefined("read of undefined variable " + j[1])
        return st[j[1]]
    if k == "+":
        return sum(need_int(r_eval(c, st, cnt)) for c in j[1])
    if k == "*":
        r = 1
        for c in j[1]:
            r *= need_int(r_eval(c, st, cnt))
        return r
    if k == "/":
        a, b = need_int(r_eval(j[1], st, cnt)), need_int(r_eval(j[2], st, cnt))
        if b == 0 or a % b != 0:
            raise RefUndefined("inexact quotient")
        return a // b
    if k == "**":
        a, b = need_int(r_eval(j[1], st, cnt)), need_int(r_eval(j[2], st, cnt))
        if b < 0:
            raise RefUndefined("negative power")
        return a ** b
    if k == "call":
        return_v = r_call(j[1], [r_eval(c, st, cnt) for c in j[2]], {kk: r_eval(v, st, cnt) for kk, v in j[3]})
        if isinstance(return_v, tuple):
            raise RefUndefined("tuple in expression")
        return return_v
    if k == "sub":
        a, i = r_eval(j[1], st, cnt), need_int(r_eval(j[2], st, cnt))
        if not isinstance(a, list) or not (-len(a) <= i < len(a)) or a[i] is None:
            raise RefUndefined("bad subscript")
        return a[i]
    if k == "attr":
        a = need_int(r_eval(j[1], st, cnt))
        return a if j[2] == "real" else 0
    if k == "cmp":
        a, b = r_eval(j[2], st, cnt), r_eval(j[3], st, cnt)
        if isinstance(a, bool) and isinstance(b, bool) and j[1] in ("==", "!="):
            return (a == b) if j[1] == "==" else (a != b)
        a, b = need_int(a), need_int(b)
        return {"<": a < b, "<=": a <= b, ">": a > b, ">=": a >= b, "==": a == b, "!=": a != b}[j[1]]
    if k == "not":
        return not truthy(r_eval(j[1], st, cnt))
    if k == "and":
        for c in j[1]:
            if not truthy(r_eval(c, st, cnt)):
                return False
        return True
    if k == "or":
        for c in j[1]:
            if truthy(r_eval(c, st, cnt)):
                return True
        return False
    if k == "if":
        return r_eval(j[2], st, cnt) if truthy(r_eval(j[1], st, cnt)) else r_eval(j[3], st, cnt)
    if k == "min":
        return min(need_int(r_eval(c, st, cnt)) for c in j[1])
    if k == "max":
        return max(need_int(r_eval(c, st, cnt)) for c in j[1])
    raise RefUndefined("expression " + str(k))


def truthy(v):
    if isinstance(v, (bool, int)):
        return bool(v)
    raise RefUndefined("truth value of " + repr(v)[:20])


def r_assign(kind, st, cnt):
    _, lhs, sub, rhs, loops = kind

    def once(cnt):
        v = r_eval(rhs, st, cnt)
        if sub is None:
            st[lhs] = list(v) if isinstance(v, list) else v
        else:
            i = need_int(r_eval(sub, st, cnt))
            a = st.get(lhs)
            if not isinstance(a, list) or not (-len(a) <= i < len(a)):
                raise RefUndefined("bad subscripted assignment")
            a[i] = need_int(v)
            if hasattr(st, "elem_log"):
                st.elem_log.setdefault(lhs, set()).add(a[i])

    def nest(ls, cnt):
        if not ls:
            once(cnt)
            return
        i, lo, hi = ls[0]
        lo_v, hi_v = need_int(r_eval(lo, st, cnt)), need_int(r_eval(hi, st, cnt))
        for x in range(lo_v, hi_v):
            nest(ls[1:], dict(cnt, **{i: x}))
    nest(loops, cnt)


def ref_step(prog, st):
    """program order, block by block; returns (events, status)"""
    events = []
    status = "running"
    stack = []
    last = None
    for op in prog:
        k = op[0]
        active = all(stack) and status == "running"
        if k == "stmt":
            if not active:
                continue
            kind = op[1]
            t = kind[0]
            if t == "assign":
                r_assign(kind, st, {})
            elif t == "call":
                _, lhs, f, args, kw = kind
                res = r_call(f, [r_eval(a, st, {}) for a in args], {kk: r_eval(v, st, {}) for kk, v in kw})
                if len(lhs) == 1:
                    res = (res,)
                if len(res) != len(lhs):
                    raise RefUndefined("result count")
                for n, v in zip(lhs, res):
                    st[n] = v
            elif t == "yield":
                _, e, tm, tid, comp = kind
                tv = r_eval(tm, st, {})
                ev = r_eval(e, st, {})
                events.append(["state", tv, tid, comp, ["arr", list(ev)] if isinstance(ev, list) else ev])
            elif t == "fail":
                status = "failed"
            elif t == "switch":
                status = ["switched", kind[1]]
            elif t == "raise":
                status = ["raised", kind[1]]
        elif k == "if":
            stack.append(truthy(r_eval(op[1], st, {})) if active else False)
        elif k == "endif":
            last = stack.pop()
        elif k == "else":
            stack.append(all(stack) and not last)
        elif k == "endelse":
            stack.pop()
            last = None
    return events, status


def persistent(n):
    return n in ("<t>", "<dt>") or n.startswith("<state>") or n.startswith("<p>")


def reference(case):
    _LENIENT[0] = bool(case.get("mixed"))
    try:
        r = reference_strict(case)
    finally:
        _LENIENT[0] = False
    return boolint(r) if case.get("mixed") else r


def reference_strict(case):
    phases = {ph["name"]: ph for ph in case["phases"]}
    st = {"<t>": case["t0"], "<dt>": case["dt"], "<state>y": case["y0"], "<state>v": list(case["v0"])}
    nxt = case["initial"]
    steps = []
    n_steps = 0
    n_iter = 0
    obs = observe(case)
    while True:
        if case["t_end"] is not None and st["<t>"] >= case["t_end"]:
            break
        if case["max_steps"] is not None and n_steps >= case["max_steps"]:
            break
        if n_iter >= case["max_iters"]:
            break
        cur = nxt
        ph = phases[cur]
        nxt = ph["next"]
        events, status = ref_step(ph["prog"], st)
        for n in list(st):
            if not persistent(n):
                del st[n]

        def snap():
            return {"next": nxt, "vars": [[n, (["arr", list(st[n])] if isinstance(st.get(n), list) else st.get(n))]
                                          for n in obs]}
        n_iter += 1
        if status == "failed":
            steps.append({"events": events + [["failed", st["<t>"]]], "after": snap()})
            continue
        if isinstance(status, list) and status[0] == "raised":
            steps.append({"events": events + [["raised", status[1]]], "after": snap()})
            break
        if isinstance(status, list) and status[0] == "switched":
            nxt = status[1]
        steps.append({"events": events + [["completed", st["<dt>"], st["<t>"], cur, nxt]], "after": snap()})
        n_steps += 1
    return steps


# ---------------------------------------------------------------- oracle

def first_diff(a, b):
    for i, (x, y) in enumerate(zip(a, b)):
        if x != y:
            for ex, ey in zip(x["events"], y["events"]):
                if ex != ey:
                    return f"step {i}: event {ex} vs {ey}"
            if len(x["events"]) != len(y["events"]):
                return f"step {i}: {len(x['events'])} vs {len(y['events'])} events"
            return f"step {i}: state after the step {x['after']} vs {y['after']}"
    return f"{len(a)} vs {len(b)} steps"


def oracle(case, out):
    if not isinstance(out, dict) or "dropped" in out:
        return None
    if "harness_error" in out:
        return {"what": "the back ends could not be run: " + out["harness_error"] + ": " + out.get("msg", "")}
    try:
        res = both_cached(case)
        ref = reference(case)
    except (RefUndefined, sc.Inexact):
        return None
    for kind, label in (("interp", "interpreter"), ("gen", "generated Python class")):
        r = res[kind]
        if "error" in r:
            return {"what": f"{label} raises {r['error']} on a program whose program-order execution is defined",
                    "sig": kind + "-exception"}
        if r["steps"] != ref:
            return {"what": f"{label} differs from the written program: " + first_diff(r["steps"], ref) + " (program order)",
                    "sig": kind + "-differs"}
    return None


def nontrivial(case, out):
    st = out.get("steps") if isinstance(out, dict) else None
    return bool(st) and len(st) >= 2 and any(e[0] == "state" for s in st for e in s["events"])


def shrink(case, still_fails):
    cur = case
    changed = True
    rounds = 0
    while changed and rounds < 200:
        changed = False
        rounds += 1
        for pi, ph in enumerate(cur["phases"]):
            prog = ph["prog"]
            for i, op in enumerate(prog):
                if op[0] in ("stmt", "fresh"):
                    cand = prog[:i] + prog[i + 1:]
                elif op[0] == "if":
                    # drop the whole if (and its else) block
                    depth, j = 0, i
                    while j < len(prog):
                        if prog[j][0] in ("if", "else"):
                            depth += 1
                        elif prog[j][0] in ("endif", "endelse"):
                            depth -= 1
                            if depth == 0 and not (j + 1 < len(prog) and prog[j + 1][0] == "else"):
                                break
                        j += 1
                    cand = prog[:i] + prog[j + 1:]
                else:
                    continue
                phases = [dict(p) for p in cur["phases"]]
                phases[pi]["prog"] = cand
                c2 = dict(cur, phases=phases)
                if still_fails(c2):
                    cur = c2
                    changed = True
                    break
            if changed:
                break
        if not changed and cur["max_steps"] > 1:
            c2 = dict(cur, max_steps=cur["max_steps"] - 1)
            if still_fails(c2):
                cur = c2
                changed = True
    return cur
