"""C18 — constant hoisting preserves value and hoists only constants."""
import itertools

import ser

ID = "C18"
SOURCES = ["dagrt/expression.py"]
RULE = ("exhaustive: every expression with <= 4 nodes over {+ (2-3 children), * (2 children), f(.), x ** 2, x, y, 2} x every "
        "subset of {x, y, f} declared free; random: depth <= 4 with nested sums/products, calls with positional and keyword "
        "arguments, powers, quotients, subscripts, function symbols declared free. Compared with the Lean model: the rewritten "
        "expression and the ordered list of hoisted assignments (new variables h0, h1, ... in the order new_var_func is called). "
        "Oracle on the real callbacks: every hoisted right-hand side mentions no free variable; every new variable is assigned "
        "exactly once; substituting the assignments back and evaluating at 6 random integer points under 2 function tables gives "
        "the original value (powers of powers with exponents 0.5 / 1.5: 12 points incl. negative bases, floating point with tolerance). Non-trivial: at least one assignment was hoisted.")
TRUSTED = ["products are evaluated over the integers (commutative); the property's value claim is for commutative arithmetic"]

ATOMS = [["v", "x"], ["v", "y"], ["c", 2]]


def enum(n):
    if n == 1:
        return list(ATOMS)
    out = []
    for a in enum(n - 1):
        out.append(["call", "f", [a], []])
        out.append(["**", a, ["c", 2]])
    for k in range(1, n - 1):
        for a in enum(k):
            for b in enum(n - 1 - k):
                out.append(["+", [a, b]])
                out.append(["*", [a, b]])
    if n >= 4:
        for a, b, c in itertools.product(ATOMS, repeat=3):
            out.append(["+", [a, b, c]])
    return out


def rand_expr(rng, d):
    r = rng.random()
    if d <= 0 or r < 0.25:
        q = rng.random()
        if q < 0.6:
            return ["v", rng.choice(["x", "y", "z", "w"])]
        return ["c", rng.randint(-2, 4)]
    if r < 0.5:
        return ["+", [rand_expr(rng, d - 1) for _ in range(rng.randint(2, 4))]]
    if r < 0.7:
        return ["*", [rand_expr(rng, d - 1) for _ in range(rng.randint(2, 3))]]
    if r < 0.82:
        f = rng.choice(["f", "g"])
        args = [rand_expr(rng, d - 1) for _ in range(rng.randint(0, 2))]
        kw = [["k", rand_expr(rng, d - 1)]] if rng.random() < 0.3 else []
        return ["call", f, args, kw]
    if r < 0.9:
        return ["**", rand_expr(rng, d - 1), ["c", rng.randint(0, 2)]]
    if r < 0.95:
        return ["/", rand_expr(rng, d - 1), ["c", rng.choice([1, -1])]]
    return ["sub", ["v", rng.choice(["a", "b"])], rand_expr(rng, d - 1)]


def cases(rng, tier):
    seen = set()
    for n in (1, 2, 3, 4):
        for e in enum(n):
            key = str(e)
            if key in seen:
                continue
            seen.add(key)
            for k in range(4):
                for free in itertools.combinations(["x", "y", "f"], k):
                    yield {"op": "C18.collapse", "tag": f"exh{n}", "expr": e, "free": list(free)}
    # the SAME constant operands under different operators / at several places of one expression (a cache of folded
    # groups keyed by the operands alone would hand the sum's variable to the product)
    for _ in range(60 if tier == "quick" else 600):
        consts = [["v", n] for n in rng.sample(["a", "b", "w", "z"], rng.randint(2, 3))]
        if rng.random() < 0.3:
            consts[0] = ["call", "g", [consts[0]], []]
        nc1, nc2 = ["v", rng.choice(["x", "y"])], ["v", rng.choice(["x", "y"])]
        s_ = ["+", list(consts) + [nc1]]
        p_ = ["*", list(consts) + [nc2]]
        shapes = [["*", [s_, ["call", "f", [p_], []]]], ["+", [p_, s_]], ["call", "f", [s_, p_], []],
                  ["+", [s_, ["*", [["c", 2], s_]]]], ["*", [p_, p_]]]
        yield {"op": "C18.collapse", "tag": "same-constants-twice", "expr": rng.choice(shapes), "free": ["x", "y"]}
    # powers of powers, with exponents that are not integers (|y| written (y**2)**0.5): merging the exponents is wrong
    # for a negative base
    exps = [["c", 2], ["cf", "0.5"], ["v", "a"], ["v", "b"], ["c", 3], ["cf", "1.5"]]
    for _ in range(60 if tier == "quick" else 600):
        base = rng.choice([["v", "x"], ["+", [["v", "x"], ["*", [["c", -1], ["v", "y"]]]]], ["v", "z"]])
        pw = ["**", ["**", base, rng.choice(exps)], rng.choice(exps)]
        shape = rng.choice([pw, ["*", [["v", "w"], pw]], ["+", [pw, ["*", [["v", "a"], ["v", "b"]]]]],
                            ["call", "f", [pw], []]])
        yield {"op": "C18.collapse", "tag": "power-of-power", "expr": shape, "free": rng.choice([["x", "y"], ["x"], ["x", "y", "z"]])}
    for _ in range(2000 if tier == "quick" else 30000):
        e = rand_expr(rng, rng.randint(1, 4))
        names = ["x", "y", "z", "w", "a", "b", "f", "g"]
        free = [n for n in names if rng.random() < 0.4]
        yield {"op": "C18.collapse", "tag": "random", "expr": e, "free": free}


def exhaustive(tier):
    return True


def run_real(case):
    from pymbolic import var
    from dagrt.expression import collapse_constants
    counter = [0]
    assigns = []

    def new_var():
        v = var(f"h{counter[0]}")
        counter[0] += 1
        return v

    def assign(v, e):
        assigns.append((v, e))
    e = ser.from_js(case["expr"])
    res = collapse_constants(e, [var(n) for n in case["free"]], assign, new_var)
    return e, res, assigns, counter[0]


def impl(case):
    try:
        e, res, assigns, n = run_real(case)
    except (TypeError, KeyError) as ex:
        return {"dropped": "mapper-rejects:" + type(ex).__name__}
    return {"expr": ser.to_js(res), "assigns": [[v.name, ser.to_js(x)] for v, x in assigns], "n_new": n}


def normalise(out):
    """WHICH new variable names which hoisted subexpression (the order in which the mapper asks for names)
    is not part of the property: the new variables are renamed by first occurrence in the result expression
    and the assignments sorted accordingly, on both sides of the comparison"""
    if isinstance(out, dict) and "assigns" in out and "expr" in out:
        new = [a[0] for a in out["assigns"]]
        order = []

        def occ(j):
            if isinstance(j, list):
                if len(j) == 2 and j[0] == "v" and j[1] in new and j[1] not in order:
                    order.append(j[1])
                for x in j:
                    occ(x)
        occ(out["expr"])
        for a in out["assigns"]:
            occ(a[1])
        order += [n for n in new if n not in order]
        ren = {n: "#%d" % k for k, n in enumerate(order)}

        def rn(j):
            if isinstance(j, list):
                if len(j) == 2 and j[0] == "v" and j[1] in ren:
                    return ["v", ren[j[1]]]
                return [rn(x) for x in j]
            return j
        return {"expr": rn(out["expr"]), "assigns": sorted([ren[a[0]], rn(a[1])] for a in out["assigns"])}
    if isinstance(out, dict):
        return {k: v for k, v in out.items() if k != "n_new"}
    return out


def names_in(j, acc):
    """all names incl. function symbols"""
    if not isinstance(j, list):
        return
    if j and j[0] == "v":
        acc.add(j[1])
        return
    if j and j[0] == "call":
        acc.add(j[1])
    for x in j[1:]:
        if isinstance(x, list):
            if x and isinstance(x[0], str) and x[0] in ("v", "c", "+", "*", "/", "**", "call", "sub", "cf", "cz", "cb", "cs", "cn",
                                                          "cmp", "not", "and", "or", "if", "min", "max", "attr"):
                names_in(x, acc)
            else:
                for y in x:
                    if isinstance(y, list) and len(y) == 2 and isinstance(y[0], str) and isinstance(y[1], list):
                        names_in(y[1], acc)     # kw pair
                    names_in(y, acc)


def evaluate(j, env, funs):
    k = j[0]
    if k == "c":
        return j[1]
    if k == "cf":
        return float(j[1])
    if k == "v":
        return env[j[1]]
    if k == "+":
        return sum(evaluate(c, env, funs) for c in j[1])
    if k == "*":
        r = 1
        for c in j[1]:
            r *= evaluate(c, env, funs)
        return r
    if k == "/":
        return evaluate(j[1], env, funs) * evaluate(j[2], env, funs)      # divisor is +-1
    if k == "**":
        return evaluate(j[1], env, funs) ** evaluate(j[2], env, funs)
    if k == "call":
        return funs(j[1], [evaluate(c, env, funs) for c in j[2]], [(kk, evaluate(v, env, funs)) for kk, v in j[3]])
    if k == "sub":
        return funs("sub:" + str(j[1]), [evaluate(j[2], env, funs)], [])
    raise ValueError(k)


def oracle(case, out):
    if "expr" not in out:
        return None
    import random
    new_names = [a[0] for a in out["assigns"]]
    if len(set(new_names)) != len(new_names):
        return {"what": f"a new variable is assigned more than once: {new_names}", "sig": "assigned-twice"}
    if len(new_names) != out["n_new"]:
        return {"what": f"{out['n_new']} new variables requested but {len(new_names)} assigned", "sig": "unassigned"}
    for n, rhs in out["assigns"]:
        acc = set()
        names_in(rhs, acc)
        bad = acc & set(case["free"])
        if bad:
            return {"what": f"hoisted {n} = {rhs} mentions free variable(s) {sorted(bad)}", "sig": "not-closed"}
    used = set()
    names_in(out["expr"], used)
    for n in new_names:
        pass
    rng = random.Random(len(str(case["expr"])))
    inexact = case.get("tag") == "power-of-power"
    for trial in range(12 if inexact else 6):
        env = {n: rng.randint(-3, 4) for n in ["x", "y", "z", "w", "a", "b"]}
        if inexact:
            env.update(a=rng.choice([2, 0.5, 3, 1.5]), b=rng.choice([2, 0.5, 3, 1.5]), x=rng.choice([-3, -2, 2, 3]))
        salt = rng.randint(1, 5)

        def funs(name, args, kw, salt=salt):
            if inexact:         # floats / complex numbers: an injective-enough smooth function
                return sum((i + 2) * a for i, a in enumerate(args)) + sum(len(k) * v for k, v in kw) + len(name) * salt
            return (sum((i + 2) * a for i, a in enumerate(args)) + sum(len(k) * v for k, v in kw) + len(name) * salt) % 7 - 3
        try:
            want = evaluate(case["expr"], env, funs)
            env2 = dict(env)
            for n, rhs in out["assigns"]:
                env2[n] = evaluate(rhs, env, funs)
            got = evaluate(out["expr"], env2, funs)
        except (KeyError, ZeroDivisionError, ValueError, OverflowError, TypeError):
            continue
        if (abs(got - want) > 1e-9 * max(1.0, abs(want))) if inexact else (got != want):
            return {"what": f"value changed at {env}: {want} -> {got}", "sig": "value"}
    return None


def nontrivial(case, out):
    return bool(out.get("assigns"))
