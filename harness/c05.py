"""C05 — lowering a phase to structured code keeps order, guards and loops."""
import itertools

import c06

ID = "C05"
SOURCES = ["dagrt/codegen/dag_ast.py", "dagrt/codegen/codegen_base.py"]
RULE = ("exhaustive: every acyclic dependency graph on <= 3 statements x every relabelling of the ids (so that sorted-id order "
        "is not a topological order) x guards from {True, p0, not p0, p1} per statement, loop nests chosen at random per case; "
        "random: phases of up to 10 statements with no-ops, constant guards, double negations, loop nests of depth <= 2, "
        "occasional dangling dependencies. Compared with the Lean model: the exact structured program returned by "
        "create_ast_from_phase (leaves must carry condition=True and no loops; loops must carry the declared identifier and bounds). "
        "Guards in the random part also include conditions that are not variables (comparisons of a and b, a conjunction). "
        "Oracle: for all valuations of 3 flags (and of a, b over {0, 1, NaN} where comparisons occur) and trip counts (2, 1, 0): the executed leaves are exactly the non-no-op statements "
        "whose guard holds, once per iteration vector of their declared loops, in an order consistent with the dependencies; "
        "3 permuted storage orders give the identical program. Non-trivial: >= 2 statements, >= 1 edge.")
TRUSTED = ["ids are compared as Python compares str; the harness numbers them by sorted rank",
           "guards are flags, five fixed non-variable conditions, negations and constants (atoms to the model; pymbolic structural equality)"]

TRIPS = [2, 1, 0]


def sid(k):
    return f"s{k:02d}"


def build(case, order=None):
    from pymbolic import var
    from dagrt.language import Assign, DAGCode, ExecutionPhase, Nop
    stmts = []
    for s in case["stmts"]:
        deps = [sid(d) for d in s["deps"]]
        if s.get("nop"):
            stmts.append(Nop(id=sid(s["id"]), depends_on=deps))
        else:
            cond = True if s.get("cond") is None else c06.cond_py(s["cond"])
            stmts.append(Assign(id=sid(s["id"]), assignee="x", assignee_subscript=(), expression=s["id"],
                                loops=[(f"i{v}", 0, var(f"n{v}")) for v in s.get("loops", [])],
                                condition=cond, depends_on=deps))
    if order is not None:
        stmts = [stmts[i] for i in order]
    ph = ExecutionPhase("p", "p", stmts)
    return DAGCode({"p": ph}, "p")


def to_js(a):
    from pymbolic import var
    from dagrt.codegen.dag_ast import Block, ForLoop, IfThen, IfThenElse, NullASTNode, StatementWrapper
    if isinstance(a, StatementWrapper):
        st = a.statement
        ok = (getattr(st, "condition", True) is True) and not getattr(st, "loops", [])
        return ["L", int(st.id[1:])] if ok else ["L-not-stripped", st.id]
    if isinstance(a, NullASTNode):
        return "N"
    if isinstance(a, IfThenElse):
        return ["I", c06.cond_js(a.condition), to_js(a.then), to_js(a.else_)]
    if isinstance(a, IfThen):
        return ["T", c06.cond_js(a.condition), to_js(a.then)]
    if isinstance(a, ForLoop):
        v = int(a.loop_var_name[1:])
        if not (a.lbound == 0 and a.ubound == var(f"n{v}")):
            return ["O-wrong-bounds", v, to_js(a.body)]
        return ["O", v, to_js(a.body)]
    if isinstance(a, Block):
        return ["B", [to_js(c) for c in a.children]]
    raise ValueError(type(a).__name__)


def lower(case, order=None):
    from dagrt.codegen.dag_ast import create_ast_from_phase
    try:
        return {"ok": to_js(create_ast_from_phase(build(case, order), "p"))}
    except KeyError:
        return {"err": "KeyError"}
    except Exception as e:
        return {"err": type(e).__name__}


def impl(case):
    out = lower(case)
    out["perm"] = [lower(case, o) for o in case.get("orders", [])]
    return out


def model_input(case):
    return {"op": "C05.lower", "phase": [
        {"id": s["id"], "deps": s["deps"], "nop": bool(s.get("nop")), "cond": s.get("cond"), "loops": s.get("loops", [])}
        for s in case["stmts"]]}


def normalise(out):
    if isinstance(out, dict):
        return {k: v for k, v in out.items() if k in ("ok", "err", "bad", "harness_error")}
    return out


def trace(a, v, out):
    if a == "N":
        return
    k = a[0]
    if k == "L":
        out.append(a[1])
    elif k == "T":
        if c06.ceval(a[1], v):
            trace(a[2], v, out)
    elif k == "I":
        trace(a[2] if c06.ceval(a[1], v) else a[3], v, out)
    elif k == "O":
        for _ in range(TRIPS[a[1]]):
            trace(a[2], v, out)
    elif k == "B":
        for c in a[1]:
            trace(c, v, out)
    else:
        raise ValueError(f"malformed node {k}")


def oracle(case, out):
    ids = {s["id"] for s in case["stmts"]}
    wf = all(d in ids for s in case["stmts"] for d in s["deps"])
    if "err" in out:
        if wf:
            return {"what": f"create_ast_from_phase raised {out['err']} on a well-formed phase", "sig": "raises"}
        return None
    if not wf:
        return None
    for o, r in zip(case.get("orders", []), out.get("perm", [])):
        if r.get("ok") != out["ok"]:
            return {"what": f"result depends on the storage order of the statements (order {o})", "sig": "storage"}
    # the loops around every leaf, outermost first, are the declared loops in the declared order (the first loop of
    # the statement is the outermost one: the interpreter nests them that way, and an inner bound may use an outer index)
    declared = {s["id"]: list(s.get("loops", [])) for s in case["stmts"]}

    def nests(a, path, acc):
        if a == "N" or not isinstance(a, list):
            return
        if a[0] == "L":
            acc.append((a[1], list(path)))
        elif a[0] == "T":
            nests(a[2], path, acc)
        elif a[0] == "I":
            nests(a[2], path, acc)
            nests(a[3], path, acc)
        elif a[0] == "O":
            nests(a[2], path + [a[1]], acc)
        elif a[0] == "B":
            for c in a[1]:
                nests(c, path, acc)
    found = []
    nests(out["ok"], [], found)
    for sid_, path in found:
        if sid_ in declared and path != declared[sid_]:
            return {"what": f"statement {sid_} sits inside the loops {path} (outermost first), declared {declared[sid_]}",
                    "sig": "loop-nest"}
    for v in c06.valuations([s.get("cond") for s in case["stmts"]], out["ok"]):
        got = []
        try:
            trace(out["ok"], v, got)
        except ValueError as e:
            return {"what": f"malformed structured program: {e}", "sig": "malformed"}
        want = {}
        for s in case["stmts"]:
            if s.get("nop"):
                continue
            if s.get("cond") is not None and not c06.ceval(s["cond"], v):
                continue
            n = 1
            for l in s.get("loops", []):
                n *= TRIPS[l]
            if n:
                want[s["id"]] = n
        cnt = {}
        for x in got:
            cnt[x] = cnt.get(x, 0) + 1
        if cnt != want:
            return {"what": f"under (p0, p1, p2, a, b) = {list(v)} executed leaves {cnt} (id: count), expected {want}", "sig": "leafset"}
        first = {}
        last = {}
        for k, x in enumerate(got):
            first.setdefault(x, k)
            last[x] = k
        for s in case["stmts"]:
            for d in s["deps"]:
                if s["id"] in first and d in last and last[d] > first[s["id"]]:
                    return {"what": f"under flags {list(v)} statement {s['id']} runs before its dependency {d}: {got}", "sig": "order"}
    return None


def nontrivial(case, out):
    return len(case["stmts"]) >= 2 and any(s["deps"] for s in case["stmts"])


def dags(n):
    pairs = [(i, j) for i in range(n) for j in range(i)]
    for mask in range(1 << len(pairs)):
        deps = [[] for _ in range(n)]
        for b, (i, j) in enumerate(pairs):
            if mask >> b & 1:
                deps[i].append(j)
        yield deps


GUARDS = [None, ["p", 0], ["n", ["p", 0]], ["p", 1]]


def rand_loops(rng):
    r = rng.random()
    if r < 0.7:
        return []
    if r < 0.9:
        return [rng.randrange(3)]
    return rng.sample(range(3), 2)


def orders(rng, n):
    out = []
    for _ in range(3):
        o = list(range(n))
        rng.shuffle(o)
        out.append(o)
    return out


def cases(rng, tier):
    for n in (1, 2, 3):
        for deps in dags(n):
            for perm in itertools.permutations(range(n)):
                for guards in itertools.product(range(len(GUARDS)), repeat=n):
                    stmts = [{"id": perm[i], "deps": [perm[d] for d in deps[i]], "cond": GUARDS[guards[i]],
                              "loops": rand_loops(rng)} for i in range(n)]
                    yield {"op": "C05.lower", "tag": f"exh{n}", "stmts": stmts, "orders": orders(rng, n) if n > 1 else []}
    for _ in range(1500 if tier == "quick" else 30000):
        n = rng.randint(1, 10)
        # ids from a pool of 100: whatever the hash seed of this process, some phases have root ids that collide in
        # the small hash table of a set, and only then does the iteration order of a set depend on insertion order
        perm = rng.sample(range(100), n)
        stmts = []
        for i in range(n):
            deps = rng.sample(range(i), rng.randint(0, min(3, i)))
            s = {"id": perm[i], "deps": [perm[d] for d in deps]}
            r = rng.random()
            if r < 0.12:
                s["nop"] = True
            else:
                s["cond"] = c06.rand_cond(rng) if rng.random() < 0.6 else None
                s["loops"] = rand_loops(rng)
            if rng.random() < 0.01:
                s["deps"] = s["deps"] + [177]
            stmts.append(s)
        rng.shuffle(stmts)
        yield {"op": "C05.lower", "tag": "random", "stmts": stmts, "orders": orders(rng, n)}


def exhaustive(tier):
    return True


def shrink(case, still_fails):
    cur = case
    changed = True
    while changed:
        changed = False
        for i in range(len(cur["stmts"])):
            s = cur["stmts"][i]
            cands = []
            if s.get("loops"):
                cands.append(dict(s, loops=[]))
            if s.get("cond") is not None:
                cands.append(dict(s, cond=None))
            for k in range(len(s["deps"])):
                cands.append(dict(s, deps=s["deps"][:k] + s["deps"][k + 1:]))
            for c in cands:
                st = list(cur["stmts"])
                st[i] = c
                c2 = dict(cur, stmts=st)
                if still_fails(c2):
                    cur = c2
                    changed = True
                    break
            if changed:
                break
    return cur
