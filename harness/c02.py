"""C02 — recorded dependencies make every admissible schedule equal to program order."""
import itertools

import sem_common as sc
import ser
from common import matcher

ID = "C02"
SOURCES = ["dagrt/language.py", "dagrt/utils.py", "dagrt/expression.py"]
RULE = ("random structured builder programs (1-14 calls, if_/else_ nested to depth 3, plain / subscripted / looped assignments "
        "with variable bounds, multi-result and keyword calls, yields, fail_step, switch_phase, raise_, fresh_var_name with prefixes "
        "that collide with user names and with '<cond>') run through the REAL CodeBuilder API; exhaustive: all sequences of <= 3 "
        "calls over a 6-statement alphabet on 2 variables. Compared with the Lean model per emitted statement: guard, kind, "
        "depends_on; the names returned by fresh_var_name. Oracle on the real objects: every linear extension of the emitted "
        "dependency graph (all if <= 7 statements / <= 150, else 40 random ones) is executed with the real interpreter methods "
        "and must give the events, status and final values of program order; fresh names never collide. "
        "Non-trivial: >= 3 statements and >= 2 linear extensions.")
TRUSTED = ["CodeBuilder.assign's dispatch (parse, call detection) is exercised but not modelled: the model's input are the "
           "statement kinds the real builder created; its bookkeeping (_add_statement, if_/else_, fresh_var_name) is modelled",
           "value semantics of arrays: programs that alias an array (b <- a) and then write an element are excluded from the "
           "generator (recorded as a known finding)"]


# ---- program generation: list of ops in JSON

def gen_block(rng, depth, budget, env, out):
    while budget[0] > 0:
        r = rng.random()
        if r < 0.62 or depth >= 3:
            k = sc.g_kind(rng, env)
            while k[0] == "nop":
                k = sc.g_kind(rng, env)
            out.append(["stmt", k])
            budget[0] -= 1
        elif r < 0.9:
            out.append(["if", sc.g_bool(rng, 1, env)])
            budget[0] -= 1
            gen_block(rng, depth + 1, [min(budget[0], rng.randint(1, 3))], env, out)
            out.append(["endif"])
            if rng.random() < 0.5:
                if rng.random() < 0.1 and budget[0] > 0:
                    out.append(["stmt", sc.g_kind(rng, env, allow_nonassign=False)])
                    budget[0] -= 1
                out.append(["else"])
                gen_block(rng, depth + 1, [min(max(budget[0], 1), rng.randint(1, 2))], env, out)
                out.append(["endelse"])
        else:
            out.append(["fresh", rng.choice(["temp", "<cond>", "a", "t1", "temp_0"])])
        if rng.random() < 0.25:
            break


def gen_program(rng):
    env = sc.base_env()
    out = []
    budget = [rng.randint(1, 12)]
    while budget[0] > 0:
        gen_block(rng, 0, budget, env, out)
    return out


ALPHA = [
    ["stmt", ["assign", "a", None, ["v", "b"], []]],
    ["stmt", ["assign", "b", None, ["+", [["v", "a"], ["c", 1]]], []]],
    ["stmt", ["assign", "a", None, ["c", 2], []]],
    ["stmt", ["yield", ["v", "a"], ["v", "<t>"], "final", "y"]],
    ["stmt", ["assign", "u", ["v", "j"], ["v", "a"], []]],
    ["stmt", ["assign", "j", None, ["c", 1], []]],
]


def cases(rng, tier):
    for ln in (1, 2, 3):
        for seq in itertools.product(range(len(ALPHA)), repeat=ln):
            yield {"op": "C02.build", "tag": f"exh{ln}", "prog": [ALPHA[i] for i in seq], "store": sc.g_store(rng)}
    # guarded variants of the pairs
    for a, b in itertools.product(range(len(ALPHA)), repeat=2):
        yield {"op": "C02.build", "tag": "exh-if", "store": sc.g_store(rng),
               "prog": [["if", ["v", "fl"]], ALPHA[a], ["endif"], ["else"], ALPHA[b], ["endelse"], ALPHA[a]]}
    for _ in range(500 if tier == "quick" else 10000):
        c = {"op": "C02.build", "tag": "random", "prog": gen_program(rng), "store": sc.g_store(rng)}
        if rng.random() < 0.25:
            c["str_args"] = True        # plain variables / numbers handed to the builder as text
            c["tag"] = "random+text-arguments"
        yield c


def exhaustive(tier):
    return True


# ---- real builder

def _simple(j):
    return isinstance(j, list) and (j[0] == "v" or (j[0] == "c" and isinstance(j[1], int) and not isinstance(j[1], bool) and j[1] >= 0))


def drive_builder(cb, prog, str_args=False):
    """make the builder calls of `prog` on the REAL CodeBuilder `cb`; returns (fresh names, failure).
    str_args: plain variables / numbers are handed over as TEXT wherever the builder API takes an expression
    (yielded value and its time, right-hand side and target of a plain assignment, condition of if_)"""

    def arg(j):
        e = ser.from_js(j)
        return str(e) if str_args and _simple(j) else e
    from pymbolic import var
    from pymbolic.primitives import Call, CallWithKwargs, Variable
    cms = []
    fresh = []
    failed = None
    try:
        for op in prog:
            k = op[0]
            if k == "stmt":
                kind = op[1]
                t = kind[0]
                if t == "assign":
                    _, lhs, sub, rhs, loops = kind
                    target = var(lhs) if sub is None else var(lhs)[ser.from_js(sub)]
                    if str_args and sub is None:
                        target = lhs
                    cb.assign(target, arg(rhs), loops=[(i, ser.from_js(lo), ser.from_js(hi)) for i, lo, hi in loops])
                elif t == "call":
                    _, lhs, f, args, kw = kind
                    a = tuple(ser.from_js(x) for x in args)
                    e = CallWithKwargs(Variable(f), a, {kk: ser.from_js(v) for kk, v in kw}) if kw else Call(Variable(f), a)
                    cb.assign(tuple(var(x) for x in lhs), e)
                elif t == "yield":
                    _, e, tm, tid, comp = kind
                    cb.yield_state(arg(e), comp, arg(tm), tid)
                elif t == "fail":
                    cb.fail_step()
                elif t == "switch":
                    cb.switch_phase(kind[1])
                elif t == "raise":
                    cb.raise_(sc.ERRS[kind[1]], "msg")
                else:
                    raise ValueError(kind)
            elif k == "if":
                cm = cb.if_(arg(op[1]))
                cm.__enter__()
                cms.append(cm)
            elif k in ("endif", "endelse"):
                cm = cms.pop()
                cm.__exit__(None, None, None)
            elif k == "else":
                cm = cb.else_()
                cm.__enter__()
                cms.append(cm)
            elif k == "fresh":
                fresh.append(cb.fresh_var_name(op[1]))
    except AssertionError:
        failed = "AssertionError"
    except IndexError:
        failed = "IndexError"
    return fresh, failed


def run_builder(prog, str_args=False):
    """returns (statements, fresh names, failure)"""
    from dagrt.language import CodeBuilder
    cb = CodeBuilder("p")
    fresh, failed = drive_builder(cb, prog, str_args)
    return cb.statements, fresh, failed


def model_ops(prog, stmts):
    """the ops the model replays: statement kinds as the real builder created them"""
    kinds = [sc.stmt_js(st)["kind"] for st in stmts]
    ops = []
    k = 0
    for op in prog:
        if k > len(kinds):
            break
        if op[0] == "stmt":
            if k < len(kinds):
                ops.append(["stmt", kinds[k]])
            k += 1
        elif op[0] == "if":
            ops.append(op)
            k += 1          # the flag assignment
        else:
            ops.append(op)
    return ops


def idx(sid):
    return int(sid.rsplit("_", 1)[1])


def impl(case):
    try:
        stmts, fresh, failed = run_builder(case["prog"], case.get("str_args", False))
    except ValueError as e:
        return {"dropped": "builder-api-rejects"}
    out = []
    for st in stmts:
        j = sc.stmt_js(st)
        out.append({"cond": j["cond"], "kind": j["kind"], "deps": sorted(idx(d) for d in st.depends_on)})
    return {"stmts": out, "fresh": fresh, "failed": failed}


def model_input(case):
    stmts, fresh, failed = run_builder(case["prog"], case.get("str_args", False))
    return {"op": "C02.build", "ops": model_ops(case["prog"], stmts)}


def _strings(j, acc):
    if isinstance(j, str):
        acc.add(j)
    elif isinstance(j, list):
        for x in j:
            _strings(x, acc)
    elif isinstance(j, dict):
        for x in j.values():
            _strings(x, acc)


def canon_handed_out(out, known):
    """the output with every name the BUILDER handed out (one that occurs nowhere in the builder calls) replaced by
    #v0, #v1, ... in order of first occurrence: how the builder spells and numbers the names it hands out is not part
    of the property, only that they are new - which is what 'occurs nowhere in the calls' says - and distinct"""
    vmap = {}

    def v(n):
        return n if n in known else vmap.setdefault(n, f"#v{len(vmap)}")

    def walk(j):
        if isinstance(j, list):
            if len(j) == 2 and j[0] == "v" and isinstance(j[1], str):
                return ["v", v(j[1])]
            return [walk(x) for x in j]
        return j
    stmts = []
    for st in out["stmts"]:
        k = list(st["kind"])
        cond = walk(st["cond"])
        if k[0] == "assign":
            k[4] = [[v(l[0]), walk(l[1]), walk(l[2])] for l in k[4]]
            k[1], k[2], k[3] = v(k[1]), walk(k[2]), walk(k[3])
        elif k[0] == "call":
            k[3], k[4] = walk(k[3]), [[kk, walk(x)] for kk, x in k[4]]
            k[1] = [v(x) for x in k[1]]
        else:
            k = [k[0]] + [walk(x) for x in k[1:]]
        stmts.append(dict(st, cond=cond, kind=k))
    # the names returned by fresh_var_name may legitimately be spelled like variables the program uses LATER, so they
    # cannot be told from user names by spelling: only which of them coincide is compared (that they are new when handed
    # out is the oracle's business on the real builder, and a theorem of the model)
    fr = list(out.get("fresh") or [])
    return dict(out, stmts=stmts, fresh=[fr.index(n) for n in fr])


def normalise_pair(case, a, b):
    if isinstance(a, dict) and isinstance(b, dict) and "stmts" in a and "stmts" in b and a != b:
        known = set()
        # (the PREFIX asked of fresh_var_name is not a name the program uses)
        _strings([op for op in case["prog"] if op[0] != "fresh"], known)
        try:
            ca, cb = canon_handed_out(a, known), canon_handed_out(b, known)
        except (KeyError, IndexError, TypeError, ValueError):
            return a, b
        if ca == cb:
            ctx.count("tie:handed-out-names-spelled-or-numbered-differently")
            return ca, cb
    return a, b


# ---- oracle: all schedules of the REAL graph, executed by the REAL interpreter methods

def linear_extensions(deps, limit):
    n = len(deps)
    out = []

    def rec(done, order):
        if len(out) >= limit:
            return
        if len(order) == n:
            out.append(list(order))
            return
        for i in range(n):
            if i not in done and all(d in done for d in deps[i]):
                done.add(i)
                order.append(i)
                rec(done, order)
                order.pop()
                done.discard(i)
    rec(set(), [])
    return out


def random_extension(rng, deps):
    n = len(deps)
    done = set()
    order = []
    while len(order) < n:
        ready = [i for i in range(n) if i not in done and all(d in done for d in deps[i])]
        i = rng.choice(ready)
        done.add(i)
        order.append(i)
    return order


def execute(stmts, order, store):
    interp, rec = sc.make_interp(store)
    events = []
    status = "running"
    for i in order:
        ev, status = sc.exec_real(interp, stmts[i])
        if ev is not None:
            events.append(ev)
        if status != "running":
            break
    final = sorted((k, sc.val_js(dict.get(rec, k))) for k in dict.keys(rec))
    return {"events": events, "status": status, "store": final}


def oracle(case, out):
    import random
    if "dropped" in out:
        return None
    stmts, fresh, failed = run_builder(case["prog"], case.get("str_args", False))
    if len(set(fresh)) != len(fresh):
        return {"what": f"fresh_var_name returned a name twice: {fresh}", "sig": "fresh-dup"}
    n = len(stmts)
    if n == 0:
        return None
    deps = [sorted(idx(d) for d in st.depends_on) for st in stmts]
    for i, ds in enumerate(deps):
        if any(d >= i for d in ds):
            return {"what": f"statement {i} depends on a later statement {ds}", "sig": "forward-dep"}
    try:
        ref = execute(stmts, list(range(n)), case["store"])
    except sc.Inexact:
        return None
    except (TypeError, IndexError, ZeroDivisionError, ValueError):
        return None          # no reference semantics (undefined read etc.): outside the property
    if n <= 7:
        exts = linear_extensions(deps, 150)
    else:
        rng = random.Random(len(str(case["prog"])))
        exts = [random_extension(rng, deps) for _ in range(40)]
    case["_n_ext"] = len(exts)
    for order in exts:
        try:
            got = execute(stmts, order, case["store"])
        except sc.Inexact:
            continue
        except (TypeError, IndexError, ZeroDivisionError, ValueError) as e:
            return {"what": f"schedule {order} raises {type(e).__name__} while program order does not", "sig": "schedule-error",
                    "schedule": order}
        if got != ref:
            diff = [k for k in ("events", "status") if got[k] != ref[k]] + \
                   [a[0] for a, b in zip(got["store"], ref["store"]) if a != b]
            return {"what": f"schedule {order} differs from program order in {diff}", "sig": "schedule", "schedule": order,
                    "aliasing": has_alias(case["prog"])}
    return None


def has_alias(prog):
    """b <- a with a an array variable, anywhere in the program"""
    for op in prog:
        if op[0] == "stmt" and op[1][0] == "assign" and op[1][2] is None and op[1][3][0] == "v" \
                and op[1][3][1] in sc.ARR_VARS + ["w"]:
            return True
    return False


def nontrivial(case, out):
    return len(out.get("stmts", [])) >= 3 and case.get("_n_ext", 2) >= 2


def shrink(case, still_fails):
    cur = case
    changed = True
    while changed:
        changed = False
        prog = cur["prog"]
        for i, op in enumerate(prog):
            if op[0] in ("stmt", "fresh"):
                c2 = dict(cur, prog=prog[:i] + prog[i + 1:])
                c2.pop("_n_ext", None)
                if still_fails(c2):
                    cur = c2
                    changed = True
                    break
    return cur


@matcher
def array_alias_then_element_write(case, fail, **kw):
    return fail.get("sig") == "schedule" and bool(fail.get("aliasing"))
