"""C06 — simplify_ast preserves the executed leaf sequence and never fails."""
import functools
import itertools

import json
import math
import re

from pymbolic import var
from pymbolic.primitives import Comparison, LogicalAnd, LogicalNot, Variable

ID = "C06"
SOURCES = ["dagrt/codegen/dag_ast.py"]
RULE = ("exhaustive: every tree over {leaf, null, empty block, if, if/else, block of 1-3 children} with <= N nodes "
        "(N=5 quick, 6 thorough) and conditions {True, False, p0, not p0, p1, not not p0}; random: trees of up to 40 nodes "
        "incl. for-loops and blocks of up to 5 children. Compared: exact result tree / exception class of simplify_ast vs. "
        "the Lean model, and the callback sequence of the generic walker lower_node on the result. Oracle: walker must not fail; leaf trace under all valuations of p0,p1 (loop trip count 2) before vs. after, exceptions fail. "
        "Non-trivial: the simplified tree differs from the input tree.")
TRUSTED = ["modelled, not verified: pymbolic's `==` on Variable/LogicalNot (structural equality) and `is True/False` on conditions"]

CONDS = ["t", "f", ["p", 0], ["n", ["p", 0]], ["p", 1], ["n", ["n", ["p", 0]]]]


@functools.lru_cache(maxsize=None)
def enum(size):
    """all tree shapes with exactly `size` nodes (leaves unnumbered: ["L", 0])"""
    if size == 1:
        return (("L",), "N", ("B", ()))
    out = []
    for c in range(len(CONDS)):
        for s in enum(size - 1):
            out.append(("T", c, s))
    for s in enum(size - 1):
        out.append(("O", s))
    for c in range(4):
        for k in range(1, size - 1):
            for a in enum(k):
                for b in enum(size - 1 - k):
                    out.append(("I", c, a, b))
    for nch in (1, 2, 3):
        for parts in compositions(size - 1, nch):
            for kids in itertools.product(*[enum(p) for p in parts]):
                out.append(("B", kids))
    return tuple(out)


def compositions(n, k):
    if k == 1:
        if n >= 1:
            yield (n,)
        return
    for i in range(1, n - k + 2):
        for rest in compositions(n - i, k - 1):
            yield (i,) + rest


def number(t, ctr):
    """shape -> JSON ast with leaves numbered in order"""
    if t == "N":
        return "N"
    if t[0] == "L":
        ctr[0] += 1
        return ["L", ctr[0]]
    if t[0] == "T":
        return ["T", CONDS[t[1]], number(t[2], ctr)]
    if t[0] == "O":
        return ["O", 0, number(t[1], ctr)]
    if t[0] == "I":
        a = number(t[2], ctr)
        b = number(t[3], ctr)
        return ["I", CONDS[t[1]], a, b]
    if t[0] == "B":
        return ["B", [number(k, ctr) for k in t[1]]]
    raise ValueError(t)


def rand_cond(rng):
    r = rng.random()
    if r < 0.08:
        return "t"
    if r < 0.16:
        return "f"
    # flags 0..2 are plain variables; 3.. are conditions that are not variables (comparisons, a conjunction): atoms to
    # the simplifier all the same
    c = ["p", rng.randrange(3) if rng.random() < 0.8 else rng.randrange(3, 3 + N_ATOMS)]
    while rng.random() < 0.3:
        c = ["n", c]
    return c


def rand_tree(rng, budget, ctr):
    if budget <= 1 or rng.random() < 0.15:
        r = rng.random()
        if r < 0.7:
            ctr[0] += 1
            return ["L", ctr[0]]
        if r < 0.85:
            return "N"
        return ["B", []]
    r = rng.random()
    if r < 0.2:
        return ["T", rand_cond(rng), rand_tree(rng, budget - 1, ctr)]
    if r < 0.5:
        k = rng.randint(1, max(1, budget - 2))
        return ["I", rand_cond(rng), rand_tree(rng, k, ctr), rand_tree(rng, budget - 1 - k, ctr)]
    if r < 0.58:
        return ["O", rng.randrange(2), rand_tree(rng, budget - 1, ctr)]
    n = rng.randint(1, 5)
    kids = []
    rem = budget - 1
    for i in range(n):
        k = rng.randint(1, max(1, rem // (n - i)))
        kids.append(rand_tree(rng, k, ctr))
        rem -= k
    return ["B", kids]


def cases(rng, tier):
    maxsize = 5 if tier == "quick" else 6
    for size in range(1, maxsize + 1):
        for t in enum(size):
            yield {"op": "C06.simplify", "tag": f"exh{size}", "ast": number(t, [0])}
    for i in range(1500 if tier == "quick" else 40000):
        yield {"op": "C06.simplify", "tag": "random", "ast": rand_tree(rng, rng.randint(3, 40), [0])}


def exhaustive(tier):
    return True


# ---- real code

def to_py(a):
    from dagrt.codegen.dag_ast import (Block, ForLoop, IfThen, IfThenElse, NullASTNode, StatementWrapper)
    if a == "N":
        return NullASTNode()
    k = a[0]
    if k == "L":
        return StatementWrapper(a[1])
    if k == "T":
        return IfThen(cond_py(a[1]), to_py(a[2]))
    if k == "I":
        return IfThenElse(cond_py(a[1]), to_py(a[2]), to_py(a[3]))
    if k == "O":
        return ForLoop(f"i{a[1]}", 0, var("n"), to_py(a[2]))
    if k == "B":
        return Block(*[to_py(c) for c in a[1]])
    raise ValueError(a)


def atoms():
    a, b = var("a"), var("b")
    return [Comparison(a, "<=", b), Comparison(a, ">", b), Comparison(a, "==", b), Comparison(a, "<", 1),
            LogicalAnd((var("p0"), var("p1")))]


N_ATOMS = 5
AB_VALUES = [0.0, 1.0, math.nan]


def cond_py(c):
    if c == "t":
        return True
    if c == "f":
        return False
    if c[0] == "p":
        return var(f"p{c[1]}") if c[1] < 3 else atoms()[c[1] - 3]
    return LogicalNot(cond_py(c[1]))


def _operand_js(x):
    if isinstance(x, Variable) and x.name in ("a", "b"):
        return x.name
    if isinstance(x, (int, float)) and not isinstance(x, bool):
        return x
    raise ValueError(repr(x))


def cond_js(c):
    if c is True:
        return "t"
    if c is False:
        return "f"
    if isinstance(c, LogicalNot):
        return ["n", cond_js(c.child)]
    if isinstance(c, Variable) and re.fullmatch(r"p\d+", c.name):
        return ["p", int(c.name[1:])]
    for k, at in enumerate(atoms()):
        if type(at) is type(c) and at == c:
            return ["p", 3 + k]
    # a condition that was not in the input: keep what can still be evaluated
    if isinstance(c, Comparison):
        try:
            return ["cmp", c.operator, _operand_js(c.left), _operand_js(c.right)]
        except ValueError:
            pass
    return ["unknown", str(c)]


def uses_atoms(*js):
    s = json.dumps(js)
    return '"cmp"' in s or '"unknown"' in s or re.search(r'\["p", ([3-9]|\d\d)', s) is not None


def valuations(*js):
    """(p0, p1, p2, a, b): all flag valuations; where conditions other than flags occur, also every (a, b) over {0, 1, NaN}"""
    ab = list(itertools.product(AB_VALUES, repeat=2)) if uses_atoms(*js) else [(0.0, 0.0)]
    for fl in itertools.product([False, True], repeat=3):
        for x in ab:
            yield tuple(fl) + x


def to_js(a):
    from dagrt.codegen.dag_ast import (Block, ForLoop, IfThen, IfThenElse, NullASTNode, StatementWrapper)
    if isinstance(a, StatementWrapper):
        return ["L", a.statement]
    if isinstance(a, NullASTNode):
        return "N"
    if isinstance(a, IfThenElse):
        return ["I", cond_js(a.condition), to_js(a.then), to_js(a.else_)]
    if isinstance(a, IfThen):
        return ["T", cond_js(a.condition), to_js(a.then)]
    if isinstance(a, ForLoop):
        return ["O", int(a.loop_var_name[1:]), to_js(a.body)]
    if isinstance(a, Block):
        return ["B", [to_js(c) for c in a.children]]
    raise ValueError(type(a).__name__)


def make_walker():
    from dagrt.codegen.codegen_base import StructuredCodeGenerator

    class Walker(StructuredCodeGenerator):
        def __init__(self):
            self.evs = []

        def lower_inst(self, inst):
            self.evs.append(["inst", inst])

        def emit_if_begin(self, expr):
            self.evs.append(["if", cond_js(expr)])

        def emit_if_end(self):
            self.evs.append("endif")

        def emit_else_begin(self):
            self.evs.append("else")

        def emit_for_begin(self, name, lo, hi):
            self.evs.append(["for", int(name[1:])])

        def emit_for_end(self, name):
            self.evs.append(["endfor", int(name[1:])])
    return Walker()


def impl(case):
    from dagrt.codegen.dag_ast import simplify_ast
    try:
        res = simplify_ast(to_py(case["ast"]))
        w = make_walker()
        try:
            w.lower_node(res)
            walk = w.evs
        except ValueError:
            walk = "ValueError"
        return {"ok": to_js(res), "walk": walk}
    except RecursionError:
        return {"err": "RecursionError"}
    except Exception as e:
        return {"err": type(e).__name__}


# ---- oracle: the property itself

_CMP = {"<": lambda x, y: x < y, "<=": lambda x, y: x <= y, ">": lambda x, y: x > y, ">=": lambda x, y: x >= y,
        "==": lambda x, y: x == y, "!=": lambda x, y: x != y}


def ceval(c, v):
    if c == "t":
        return True
    if c == "f":
        return False
    if c[0] == "p":
        if c[1] < 3:
            return v[c[1]]
        a, b = (v[3], v[4]) if len(v) > 3 else (0.0, 0.0)
        k = c[1] - 3
        return [a <= b, a > b, a == b, a < 1, v[0] and v[1]][k]
    if c[0] == "cmp":
        a, b = (v[3], v[4]) if len(v) > 3 else (0.0, 0.0)
        val = lambda x: {"a": a, "b": b}.get(x, x)
        return _CMP[c[1]](val(c[2]), val(c[3]))
    if c[0] == "unknown":
        raise ValueError(f"a condition that is not in the input: {c[1]}")
    return not ceval(c[1], v)


def trace(a, v, out):
    if a == "N":
        return
    k = a[0]
    if k == "L":
        out.append(a[1])
    elif k == "T":
        if ceval(a[1], v):
            trace(a[2], v, out)
    elif k == "I":
        trace(a[2] if ceval(a[1], v) else a[3], v, out)
    elif k == "O":
        for _ in range(2):
            trace(a[2], v, out)
    elif k == "B":
        for c in a[1]:
            trace(c, v, out)


def oracle(case, out):
    if "ok" not in out:
        return {"what": f"simplify_ast raised {out.get('err') or out}", "sig": "raises"}
    if out.get("walk") == "ValueError":
        return {"what": f"the structured back ends' walker (lower_node) has no case for a node of the simplified program {out['ok']}", "sig": "walker"}
    for v in valuations(case["ast"], out["ok"]):
        t0, t1 = [], []
        trace(case["ast"], v, t0)
        try:
            trace(out["ok"], v, t1)
        except ValueError as e:
            return {"what": f"simplified program not interpretable: {e}", "sig": "malformed"}
        if t0 != t1:
            return {"what": f"leaf trace changed under (p0, p1, p2, a, b) = {list(v)}: {t0} -> {t1}", "sig": "trace"}
    return None


def nontrivial(case, out):
    return out.get("ok") != case["ast"]


def _subtrees(a):
    """candidate replacements: children of a"""
    if a == "N" or a[0] == "L":
        return []
    if a[0] in ("T", "O"):
        return [a[2]]
    if a[0] == "I":
        return [a[2], a[3]]
    return list(a[1]) + [["B", a[1][:i] + a[1][i + 1:]] for i in range(len(a[1]))]


def shrink(case, still_fails):
    cur = case
    changed = True
    while changed:
        changed = False
        # replace the tree, or any subtree, by one of its children
        def variants(a):
            for s in _subtrees(a):
                yield s
            if a != "N" and a[0] in ("T", "O"):
                for s in variants(a[2]):
                    yield [a[0], a[1], s]
            elif a != "N" and a[0] == "I":
                for s in variants(a[2]):
                    yield ["I", a[1], s, a[3]]
                for s in variants(a[3]):
                    yield ["I", a[1], a[2], s]
            elif a != "N" and a[0] == "B":
                for i, c in enumerate(a[1]):
                    for s in variants(c):
                        yield ["B", a[1][:i] + [s] + a[1][i + 1:]]
        for cand in variants(cur["ast"]):
            c2 = dict(cur, ast=cand)
            if still_fails(c2):
                cur = c2
                changed = True
                break
    return cur
