"""Regenerates MANIFEST.json from the table below (kept valid at all times)."""
import json, os
VERIF = os.path.dirname(os.path.dirname(os.path.abspath(__file__)))

CHECKS = {
 "C06": dict(
    text="Lean 4 theorems over the hand-written model of simplify_ast's three passes: totality (no exception) and equality of the executed leaf sequence for ALL trees, ALL flag valuations and loop trip counts (structural induction, merge-loop invariant). The model is tied to /repo on every run by an exhaustive differential comparison (every tree of <= 5 nodes quick / <= 6 thorough, plus random trees up to 40 nodes) of the exact result tree; an independent trace oracle searches for a failing input when model and code part.",
    note="Trusted: Lean kernel; axioms propext/Quot.sound; the model's fidelity beyond the compared trees (structural argument: the code is a tree recursion whose cases are all exercised by the <=6-node universe); pymbolic structural equality of conditions. Conditions are flags/negations/constants as the property says.",
    technique="Lean 4 proof (structural induction + loop invariant) over a hand-written model; exhaustive small-scope + random differential correspondence",
    ref="7/C06"),
 "C14": dict(
    text="Lean 4 theorems for ALL kinds (arbitrary user-type identifiers): unify is idempotent, commutative and associative wherever defined and is the least upper bound of a partial order. The real unify is tabulated over the property's 10-kind universe on every run into a generated Lean file whose equality with the model is proved by `decide`; SymbolKindFinder (work-list loop, table update, per-operator rules, built-in result kinds) is modelled and compared with the real code on random programs in several statement/phase orders; an oracle compares the real tables across 6 permutations per program.",
    note="Order-independence of the inferred table is proved in the model only through the algebraic laws of unify/set at this commit (the chaotic-iteration theorem is planned); it is checked differentially and by the permutation oracle. Known finding: incompatible kinds keep the first one (documented print-and-ignore). pymbolic.flatten is third-party and applied on the harness side.",
    technique="Lean 4 proof (case analysis + grind) over hand-written model; generated table checked by decide; differential correspondence + permutation oracle",
    ref="7/C14"),
 "C10": dict(
    text="Lean 4 theorems over the model of verify_code (four passes + exception aggregator): the iterative cycle check terminates (decreasing potential), a reported cycle is real and no report implies a rank function (ghost-framed DFS invariant), acceptance <-> the four well-formedness clauses, never another exception, every rejection carries a message, accepted phases resolve every dependency and admit a rank function (what planner and lowering rely on). Correspondence: exhaustive over all digraphs on <= 3 statements with self-loops, dangling and cross-phase targets (4 in the thorough tier) x switch targets x flag assignments, plus random multi-phase methods; compared: outcome class and message kinds; accepted methods are pushed through create_ast_from_phase and the controller's planner.",
    note="Hypothesis of the verifier-level theorems: statement ids unique within a phase. The iteration order of each depends_on frozenset is read off the real object. Message wording is not modelled (only kinds).",
    technique="Lean 4 proof (DFS frame invariant, potential function, case analysis) over hand-written model; exhaustive small-scope + random differential correspondence; independent Kahn oracle",
    ref="7/C10"),
 "C04": dict(
    text="Lean 4 theorems over the model of ExecutionController (reset / update_plan with its recursive add_with_deps / the pop-execute loop) for an ARBITRARY target (guard false / executed with any list of dynamically requested statements / abort) and arbitrary iteration orders of the dependency sets: the plan invariant (no duplicates, disjoint from executed, dependencies executed or planned earlier) survives every plan update and every pop; the statement popped has all its dependencies visited and was not visited before; with the sinks as roots the initial plan contains every statement (every node of a finite acyclic graph lies below a sink); a step that is not cut short visits every statement exactly once; a step that is cut short visits a duplicate-free dependency-closed prefix; the controller never fails on a well-formed phase (fuel = recursion depth is sufficient). Correspondence: the real controller driven by a logging mock target on every DAG of <= 4 statements x guard valuations, abort positions, plus random DAGs with dynamic requests, partial roots, dangling ids; frozenset iteration orders are read off the real objects so logs must match exactly.",
    note="WF hypothesis (dependencies resolve in the phase, bounded rank function) is what C10.accept_implies_consumers_safe proves for accepted methods. The pinned tree spliced a requested statement in front of its planned-but-unexecuted dependency; repaired by a fix: commit (the model is of the repaired code).",
    technique="Lean 4 proof (invariant by induction over update_plan recursion and the run loop, rank-function argument) over hand-written model; exhaustive small-scope + random differential correspondence with exact visit logs",
    ref="7/C04"),
 "C05": dict(
    text="Lean 4 theorems over the model of create_ast_from_phase composed with the C06 model of simplify_ast: on every well-formed phase the iterative DFS terminates and lists every statement exactly once, dependencies first (proved by showing that it takes the same steps as the verifier's machine whose frame invariant is proved for C10); lowering never fails; for EVERY guard valuation and ALL trip counts the structured program executes exactly, per statement in that order, nothing for a no-op or a false guard and otherwise the statement once per iteration vector of exactly its declared loops; the result is identical for every storage order of the statements (permutation invariance via uniqueness of sorted lists); the generic walker lower_node has a case for every node of the result. Correspondence: exact structured program of the real function on all DAGs of <= 3 statements x all relabellings x guard choices, random phases with no-ops, constant guards, loop nests; leaves must come back with condition=True and no loops, loops with the declared bounds.",
    note="LWF (unique ids, dependencies resolve in the phase, rank function) is what C10 establishes for accepted methods. Ids are numbered by sorted rank in the harness (str comparison of CPython is trusted). Guards are flags/negations/constants.",
    technique="Lean 4 proof (simulation of the verifier's DFS machine, structural induction, sorted-permutation uniqueness) over hand-written model; exhaustive small-scope + random differential correspondence; independent trace oracle over all flag valuations",
    ref="7/C05"),
 "C08": dict(
    text="Lean 4 theorems for EVERY statement, store and interpretation of the function symbols, over a model of the interpreter's evaluator and exec_* methods that is instrumented with each store look-up and assignment: every look-up of the evaluator is a variable reported by the dependency mapper (short-circuit and lazy operators included), values depend on nothing else, every name read while executing a statement (guard, rhs, subscripts on both sides, loop bounds, call arguments, yielded value and time) is in its declared read or write set, every name assigned is in its declared write set, nothing outside the write set changes, agreement of two stores on the effective sets is preserved (the frame conditions C02 builds on), identity map_expressions leaves the sets unchanged. Correspondence: random statements of every kind executed by the real interpreter methods on exact-integer stores with a recording dict / recording arrays; declared sets, access logs, resulting values, status and events compared exactly.",
    note="Loop counters are local to the statement in the model (the code stores and deletes them in the context; 'loop counters aside' in the property). Operations Python raises on are the poison value undef in the model; generators avoid them and drop+count such cases. The pinned tree omitted lhs-subscript and loop-bound variables from the read set and could not execute Nop / zero-trip loops: repaired by fix: commits.",
    technique="Lean 4 proof (mutual structural induction over the expression type, compositional 'Good' transformer predicate for loops) over hand-written instrumented semantics; random differential correspondence with recorded access logs",
    ref="7/C08"),
 "C02": dict(
    text="Lean 4 theorems for EVERY sequence of code-builder calls: (1) the bookkeeping invariant of _add_statement (last writer / readers since last write) implies that every RAW, WAW or WAR conflict between an earlier and a later statement - on guards, subscripts of either side, loop bounds, call arguments, the persistent names a non-assignment is a barrier for, and the execution-state token - is covered by a path of recorded depends_on edges; edges point backwards; (2) statements without a conflict commute (from the frame/agreement theorems of C08); (3) MAIN: executing the emitted statements in ANY permutation that respects the recorded edges yields the same store - events, failure/switch/raise status and every variable - as program order (insertion-sort argument over inversions); fresh_var_name never returns a seen name and the name joins the seen set; else_ negates the flag of the if_ closed before. Correspondence: the real CodeBuilder driven through its public API on exhaustive short and random structured programs; per emitted statement guard, kind and depends_on, and the fresh names, compared exactly. Failing-input search: all linear extensions of the REAL graph executed by the REAL interpreter methods vs. program order.",
    note="Value semantics of arrays in the model: the real interpreter aliases on plain array assignment, which breaks the property for alias-then-element-write programs (known finding, generator avoids them, corpus entry reproduces it). CodeBuilder.assign's dispatch/parsing is exercised, not modelled. Functions are total and pure here (failing functions: C11). Structured if/else vs. flat guarded statements is the subject of C01.",
    technique="Lean 4 proof (invariant over the builder fold, commutation from frame conditions, insertion-sort scheduling lemma) over hand-written model; differential correspondence on the public builder API; schedule enumeration oracle on the real objects",
    ref="7/C02"),
 "C20": dict(
    text="Lean 4 theorems for EVERY line, level, width, marker and escape character over the model of split_outside_quotes + wrap_line_base + pad_python/pad_fortran: the lines' token lists concatenate to exactly the input tokens (nothing dropped, reordered or split); every token produced by the splitter is well-formed (tokenised alone it is one token with no quote open), so a quoted string - also one starting inside a word - never leaves its token; every line holding >= 2 tokens fits the width (continued lines strictly, their marker landing on the last column); joining the wrapped lines with markers removed and tokenising again yields exactly the input tokens (state-machine proof over the splitter); an unclosed quote is refused. Correspondence: exact output lines of the real Python and Fortran wrap_line on exhaustive short token sequences x widths x levels and on random lines with quoted strings glued to other text, escapes, doubled quotes, over-long tokens; oracle with an independent tokenizer and Python's ast (wrapped vs. unwrapped statement).",
    note="The pinned tree used shlex.split(posix=False), which split and re-spaced string literals that start inside a word (component_id='a  b' came back as 'a             b'): repaired by a fix: commit introducing the quote-aware splitter that is modelled. 'Parses to the same syntax tree' is checked with CPython's ast on generated statements, not proved (Python's lexical grammar is not modelled); Fortran free-form continuation is represented by: non-final lines end in '&', no character literal is split.",
    technique="Lean 4 proof (loop invariants over the chunking loop, state-machine invariant over the splitter) over hand-written model; exhaustive small-scope + random differential correspondence; independent tokenizer + ast oracle",
    ref="7/C20"),
 "C13": dict(
    text="Lean 4 theorems for EVERY name, every set of names in use and every history of look-ups over the model of make_identifier_from_name, KeyToUniqueNameMap, pytools.UniqueNameGenerator and the Python/Fortran name managers: the sanitiser returns a non-empty run of ASCII identifier characters not starting with '_'; the generator never fails (pigeonhole over pairwise different numbered candidates, decimal rendering injective, also after case folding); a returned name was free, is taken afterwards, nothing is forgotten, hence ALL names of one generator are pairwise different under the target's comparison (case-folded for Fortran, where one generator is shared by locals, globals and functions); repeated look-ups are stable; distinct keys never share an identifier; Python per-step names are 'local'+identifier characters, never a keyword; persistent names go to instance/state storage and only they. Correspondence: every identifier returned by the real managers on ALL names of length <= 2 over an adversarial alphabet (single and ordered pairs, repeated look-ups), random name sets with tags, generated-looking names, case variants, long names, interleaved make_unique_fortran_name/name_refcount; make_identifier_from_name on every code point < 0x300.",
    note="pytools.UniqueNameGenerator is third-party: modelled (regex on ASCII, numbered candidates) and validated by the correspondence run. Four known findings (over-long Fortran names, function identifiers without sanitising prefix in both targets, IR names starting with 'dagrt_') are exactly the clauses of the property that are false on the code and are therefore not theorems; the case-insensitivity defect was repaired by a fix: commit.",
    technique="Lean 4 proof (invariants over the look-up history, pigeonhole, list/string lemmas) over hand-written model; exhaustive short-name + random differential correspondence; direct legality/distinctness/stability oracle on the real managers",
    ref="7/C13"),
 "C18": dict(
    text="Lean 4 theorems for EVERY expression whose variables avoid the fresh supply, every choice of free variables, every integer valuation and every interpretation of function symbols (and of all non-arithmetic operators), over the model of collapse_constants: evaluating the rewritten expression in the valuation extended by the hoisted assignments equals evaluating the original (mutual structural induction with a compositional state-transformer predicate; regrouping of sums/products by commutativity/associativity); every hoisted right-hand side is classified constant and a constant expression mentions no free variable; the new variables are exactly h0..h(n-1), pairwise different, each assigned once; atoms are unchanged. Correspondence: rewritten expression and ordered assignment list of the real function on ALL expressions of <= 4 nodes over {+, *, f(.), **2, x, y, 2} x all free-variable subsets, plus random deep expressions with keyword arguments, quotients, subscripts, free function symbols.",
    note="Value claim is for commutative arithmetic (integers); a non-commutative product would be reordered by the code. The fresh-variable supply is assumed fresh (NoH). Function symbols are treated as variables by the constant classifier, as coded. The root expression is not itself replaced when it is a constant call/power (IdentityMapper.__call__ bypasses the overridden rec) - modelled as coded, harmless for the property.",
    technique="Lean 4 proof (mutual structural induction, compositional transformer predicate) over hand-written model; exhaustive small-scope + random differential correspondence; evaluation/closedness/single-assignment oracle on the real callbacks",
    ref="7/C18"),
}

NOT_APPLICABLE = {}

def main():
    checks = []
    for pid in sorted(CHECKS):
        c = CHECKS[pid]
        checks.append({
            "property_id": pid,
            "quick_cmd": f"./check {pid} --tier quick",
            "thorough_cmd": f"./check {pid} --tier thorough",
            "evidence_file": f"evidence/{pid}.json",
            "replay_cmd_template": f"./check {pid} --replay {{path}}",
            "engine": "lean4-model+differential-harness",
            "level_claimed": {"category": "proof", "text": c["text"], "design_ref": "DESIGN.md section " + c["ref"]},
            "level_note": c["note"],
            "technique": c["technique"],
        })
    props = [json.loads(l)["id"] for l in open(os.path.join(VERIF, "properties.jsonl")) if l.strip()]
    na = []
    for pid in props:
        if pid not in CHECKS:
            na.append({"property_id": pid, "reason": NOT_APPLICABLE.get(pid, "machinery for this property is not built yet at this commit (planned in DESIGN.md section 7; not claimed until its theorems build and its correspondence runs clean)")})
    m = {
        "version": 1,
        "setup_cmd": "cd lean && lake build Dagrt driver",
        "hooks": {"guard": "DAGRT_VERIF", "enable": "no hooks are needed: every anchored function is reachable in-process; checks run /venv/bin/python with PYTHONPATH=/repo against the working tree",
                  "baseline_off_cmd": "cd /repo && /venv/bin/python -m pytest -ra -q -p no:cacheprovider --timeout=900 --continue-on-collection-errors",
                  "source_commits": [], "add_only": True},
        "engines": [{"name": "lean4-model+differential-harness", "path": "lean/ + harness/",
                     "serves_properties": sorted(CHECKS),
                     "kind_free_text": "Lean 4 theorems over hand-written executable models (lean/Dagrt/Model, Props) + compiled line-protocol driver compared with the real Python code on generated/exhaustive cases (harness/), independent property oracles for failing-input search"}],
        "checks": checks,
        "not_applicable": na,
        "notes": "fix: commits in /repo and known findings are listed in KNOWN_FINDINGS.json; see DESIGN.md.",
    }
    with open(os.path.join(VERIF, "MANIFEST.json"), "w") as f:
        json.dump(m, f, indent=1)
        f.write("\n")

if __name__ == "__main__":
    main()
