"""Sub-process of the C15 check: reads cases (JSON lines) on stdin, writes per case the sha256 of the
generated Python / Fortran text and of the interpreter's results for the variants asked for.
Run with a given PYTHONHASHSEED."""
import hashlib
import json
import sys


def sha(s):
    return hashlib.sha256(s.encode()).hexdigest()[:20]


def rebuild(code, how):
    """the same method with its containers filled in a different order"""
    import random
    from dagrt.language import DAGCode, ExecutionPhase
    rng = random.Random(how)
    names = list(code.phases)
    if how:
        rng.shuffle(names)
    phases = {}
    for n in names:
        ph = code.phases[n]
        stmts = sorted(ph.statements, key=lambda s: s.id)
        if how:
            rng.shuffle(stmts)
            # also rebuild every depends_on set by inserting in another order
            new = []
            for s in stmts:
                deps = sorted(s.depends_on)
                rng.shuffle(deps)
                new.append(s.copy(depends_on=frozenset(deps)))
            stmts = new
        phases[n] = ExecutionPhase(n, ph.next_phase, frozenset(stmts) if how % 2 else list(stmts))
    return DAGCode(phases, code.initial_phase)


def main():
    sys.path.insert(0, "/verif/harness")
    import c01
    import fortran_common as fc
    import sem_common as sc
    out = sys.stdout
    warm = None
    for line in sys.stdin:
        case = json.loads(line)
        res = {}
        try:
            if case["family"] == "fortran":
                base = fc.build_code(case["method"])
            elif case["family"] == "raw":
                from dagrt.language import DAGCode, ExecutionPhase
                stmts = [sc.build_stmt(s["kind"], ["cb", True], s["id"], s["deps"]) for s in case["stmts"]]
                base = DAGCode({"main": ExecutionPhase("main", "main", stmts)}, "main")
            else:
                base = c01.build_code(case)
            for variant in case["variants"]:
                code = base
                if variant.startswith("perm"):
                    code = rebuild(base, int(variant[4:]))
                if variant == "after-other" and warm is not None:
                    # a preceding, separate generator invocation in the same process
                    from dagrt.codegen.python import CodeGenerator as PyGen
                    PyGen("Other")(warm)
                    try:
                        fc.make_generator("other")(warm_f) if warm_f is not None else None
                    except Exception:
                        pass
                from dagrt.codegen.python import CodeGenerator as PyGen
                r = {"py": sha(PyGen("Method")(code))}
                if case["family"] == "fortran":
                    import contextlib
                    import io
                    with contextlib.redirect_stdout(io.StringIO()):
                        r["f90"] = sha(fc.make_generator("meth")(code))
                    if variant == "plain":
                        r["interp"] = sha(json.dumps(fc.run_interpreter(case["method"]), default=str))
                elif case["family"] == "python":
                    if variant == "plain":
                        try:
                            r["interp"] = sha(json.dumps(c01.run_backend(case, "interp", code), default=str))
                        except Exception as e:
                            r["interp"] = "exc:" + type(e).__name__
                res[variant] = r
            if case["family"] == "fortran":
                warm_f = base
            warm = base
        except Exception as e:
            res = {"error": type(e).__name__ + ": " + str(e)[:150]}
        out.write(json.dumps({"id": case["id"], "res": res}) + "\n")
        out.flush()


warm_f = None
if __name__ == "__main__":
    main()
