"""C20 — line wrapping of generated code changes layout only."""
import ast
import itertools
import warnings

warnings.simplefilter("ignore", SyntaxWarning)

ID = "C20"
SOURCES = ["dagrt/codegen/utils.py", "dagrt/codegen/python.py", "dagrt/codegen/fortran.py"]
RULE = ("exhaustive: every sequence of <= 4 tokens from {x, yy, 'a b', f('p q'), =, zzzzzzzz, 'c\\\\', 'i\\'s'} x widths 6..24 x levels 0..2 x "
        "{python, fortran}; random: 1-14 tokens (identifiers, operators, quoted strings with spaces in both quote kinds, strings "
        "glued to '(' or '=', escaped quotes, doubled quotes, over-long tokens, occasional unterminated quote) separated by random "
        "whitespace, levels 0-6, widths 8-100; random valid Python statements with string arguments. Compared with the Lean model: "
        "the exact list of output lines (and the token list of the splitter). Oracle on the real output: re-joining the lines "
        "(markers removed) re-tokenises to the input's tokens; every quoted string of the input survives verbatim inside one line; "
        "every line with >= 2 tokens fits the width; non-final lines end in the marker; a Python statement parses to the same AST "
        "wrapped and unwrapped. Non-trivial: the line was actually wrapped (>= 2 output lines).")
TRUSTED = ["CPython's str (code points) vs. Lean's List Char; Python's own tokenizer/ast for the syntax-tree comparison"]

ALPHA = ["x", "yy", "'a b'", "f('p q')", "=", "zzzzzzzz", "'c\\\\'", "'i\\'s'"]


def rand_token(rng):
    r = rng.random()
    if r < 0.35:
        return "".join(rng.choice("abcxyz_01") for _ in range(rng.randint(1, 9)))
    if r < 0.5:
        return rng.choice(["=", "+", "+=", "(", ")", ",", "**", "&", "\\"])
    q = rng.choice("'\"")
    body = " ".join("".join(rng.choice("abc") for _ in range(rng.randint(0, 5))) for _ in range(rng.randint(1, 4)))
    if rng.random() < 0.15:
        body += "  " + rng.choice("xy")
    if r < 0.7:
        return q + body + q
    if r < 0.85:
        return rng.choice(["f(", "k=", "self.g(h(", "x["]) + q + body + q + rng.choice([")", "),", "", "]"])
    if r < 0.88:
        return q + body + "\\" + q + " z" + q          # escaped quote (python) / closes early (fortran)
    if r < 0.91:
        return q + body + "\\" * rng.choice([2, 2, 3, 4]) + q   # backslashes before the closing quote
    if r < 0.94:
        return q + body + q + q + "d e" + q            # doubled quote
    if r < 0.97:
        return "".join(rng.choice("abcdefgh") for _ in range(rng.randint(20, 60)))
    return q + body                                  # unterminated


def rand_py_stmt(rng):
    def atom():
        r = rng.random()
        if r < 0.4:
            return "".join(rng.choice("abcxyz") for _ in range(rng.randint(1, 8)))
        if r < 0.6:
            return str(rng.randint(0, 99999))
        return repr(" ".join("".join(rng.choice("abc'") for _ in range(rng.randint(0, 5))) for _ in range(rng.randint(1, 4))))

    def expr(d):
        if d <= 0 or rng.random() < 0.3:
            return atom()
        r = rng.random()
        if r < 0.5:
            return expr(d - 1) + " " + rng.choice(["+", "*", "-"]) + " " + expr(d - 1)
        if r < 0.8:
            return "f(" + ", ".join(expr(d - 1) for _ in range(rng.randint(1, 3))) + ")"
        return "g(k=" + expr(d - 1) + ", name=" + atom() + ")"
    r = rng.random()
    if r < 0.5:
        return "x = " + expr(3)
    if r < 0.8:
        return "raise self.StepError(" + repr("Cond") + ", " + expr(2) + ")"
    return "yield self.StateComputed(t=" + expr(1) + ", time_id=" + atom() + ", component_id=" + atom() + ")"


def cases(rng, tier):
    for n in range(0, 5 if tier == "thorough" else 4):
        for seq in itertools.product(ALPHA, repeat=n):
            line = " ".join(seq)
            for width in range(6, 25, 1 if n < 3 else 3):
                for level in (0, 2):
                    for lang in ("python", "fortran"):
                        yield {"op": "C20.wrap", "tag": f"exh{n}", "line": line, "level": level, "width": width, "lang": lang}
    for _ in range(2500 if tier == "quick" else 40000):
        toks = [rand_token(rng) for _ in range(rng.randint(1, 14))]
        line = ""
        for t in toks:
            line += rng.choice([" ", " ", " ", "  ", "\t", "   "]) if line else rng.choice(["", "", " "])
            line += t
        yield {"op": "C20.wrap", "tag": "random", "line": line, "level": rng.randint(0, 6), "width": rng.randint(8, 100),
               "lang": rng.choice(["python", "fortran"])}
    for _ in range(800 if tier == "quick" else 10000):
        yield {"op": "C20.wrap", "tag": "pystmt", "line": rand_py_stmt(rng), "level": rng.randint(0, 4),
               "width": rng.choice([20, 30, 40, 60, 80]), "lang": "python"}
    yield from emit_cases(rng, tier)
    yield from py_emit_cases(tier)


def emit_cases(rng, tier):
    """lines as the Fortran generator emits them (leading blanks = level), pushed through the REAL per-line emission path
    CodeGenerator.get_code: comment lines pass unchanged, every other line - also one with a '!' inside a string or behind
    the statement - is wrapped at the default width"""
    for _ in range(400 if tier == "quick" else 5000):
        toks = [rng.choice([rand_token(rng), "'a ! b'", "'x != y'", "write(*,*)", "'!'", "v_" + "z" * rng.randint(1, 12)])
                for _ in range(rng.randint(1, 18))]
        body = " ".join(toks)
        r = rng.random()
        if r < 0.1:
            body = "! " + body
        elif r < 0.2:
            body = body + " ! trailing comment"
        yield {"op": None, "tag": "fortran-emit", "line": " " * rng.randint(0, 8) + body, "lang": "fortran-emit",
               "level": 0, "width": 80}


def py_emit_cases(tier):
    """whole generated Python modules (the per-line emission path CodeGenerator._emit, incl. the re-indentation of the
    phase functions inside the class): statements whose text length is swept across the wrapping threshold"""
    for L in range(1, 70 if tier == "quick" else 110):
        yield {"op": None, "tag": "python-emit", "lang": "python-emit", "L": L, "line": "", "level": 0, "width": 80}


def python_module_lines(L):
    from dagrt.codegen.python import CodeGenerator
    from dagrt.language import CodeBuilder, DAGCode
    name = "v" + "a" * L
    with CodeBuilder("main") as cb:
        cb.assign(name, "<state>y + <dt> * 3")
        cb.assign("<state>y", f"{name} + {name} * <dt> + <t>")
        with cb.if_(f"{name} > <dt> + <t> + 12345"):
            cb.assign("<state>y", f"{name} - {name} * <dt> - <t> - 1")
        cb.yield_state("<state>y", "y", "<t>", "final")
    code = DAGCode.from_phases_list([cb.as_execution_phase("main")], "main")
    return CodeGenerator("Method")(code).split("\n")


_gen = {}


def fortran_get_code(line):
    import types
    if "g" not in _gen:
        import fortran_common as fc
        _gen["g"] = fc.make_generator()
    g = _gen["g"]
    g.module_emitter = types.SimpleNamespace(preamble=[], code=[line])
    lines = g.get_code().split("\n")
    while lines and lines[-1] == "":        # whether the text ends in a newline is not the wrapper's business
        lines.pop()
    return lines


def exhaustive(tier):
    return True


def model_input(case):
    return dict(case, indent="    " if case["lang"] == "python" else " ")


def wrapper(lang):
    if lang == "python":
        from dagrt.codegen.python import wrap_line
        return wrap_line, "    ", "\\"
    from dagrt.codegen.fortran import wrap_line
    return wrap_line, " ", "&"


def impl(case):
    if case["lang"] == "python-emit":
        return {"ok": python_module_lines(case["L"])}
    if case["lang"] == "fortran-emit":
        try:
            return {"ok": fortran_get_code(case["line"])}
        except ValueError:
            return {"err": "ValueError"}
    w, indent, marker = wrapper(case["lang"])
    try:
        return {"ok": w(case["line"], level=case["level"], width=case["width"], indentation=indent)}
    except ValueError:
        return {"err": "ValueError"}


def ref_tokens(line, lang):
    """independent tokeniser: whitespace outside quotes separates; None if a quote is left open"""
    toks, cur, q, esc = [], "", None, False
    for ch in line:
        if q:
            cur += ch
            if esc:
                esc = False
            elif lang == "python" and ch == "\\":
                esc = True
            elif ch == q:
                q = None
        elif ch in "'\"":
            cur += ch
            q = ch
        elif ch in " \t\r\n":
            if cur:
                toks.append(cur)
                cur = ""
        else:
            cur += ch
    if q:
        return None
    if cur:
        toks.append(cur)
    return toks


def oracle(case, out):
    lang = case["lang"]
    if lang == "python-emit":
        lines = out.get("ok", [])
        # every line of code of the module (whatever the generated functions are called); lines inside multi-line
        # string literals (licence text, docstrings) are fixed text that never went through the wrapper
        import io
        import tokenize
        in_string = set()
        try:
            for tok in tokenize.generate_tokens(io.StringIO("\n".join(lines) + "\n").readline):
                if tok.type == tokenize.STRING and tok.end[0] > tok.start[0]:
                    in_string.update(range(tok.start[0], tok.end[0] + 1))
        except (tokenize.TokenError, IndentationError, SyntaxError):
            pass        # reported by ast.parse below
        for k, ln in enumerate(lines):
            if k + 1 in in_string:
                continue
            body = ln[:-1] if ln.endswith("\\") else ln
            toks = ref_tokens(body, "python")
            if toks is not None and len(toks) >= 2 and len(ln) > 80 and not body.lstrip().startswith(("#", '"', "'")):
                return {"what": f"line {k} of the generated module holds {len(toks)} tokens and is {len(ln)} > 80 columns wide: {ln!r}",
                        "sig": "emit-width"}
        try:
            ast.parse("\n".join(lines))
        except SyntaxError as e:
            return {"what": f"the generated module does not parse: {e}", "sig": "emit-syntax"}
        return None
    if lang == "fortran-emit":
        line = case["line"]
        if line.lstrip(" ").startswith("!"):
            if out.get("ok") != [line]:
                return {"what": f"a comment line was changed by the emission path: {out}", "sig": "emit-comment"}
            return None
        # the emitted lines carry their indentation already
        lead = len(line) - len(line.lstrip(" "))
        sub = dict(case, lang="fortran", line=line[lead:], level=0, width=80)
        if "ok" in out:
            if any(not ln.startswith(" " * lead) for ln in out["ok"]):
                return {"what": "an emitted line lost the indentation of its statement", "sig": "emit-indent"}
            out = {"ok": [ln[lead:] for ln in out["ok"]]}
            sub["level"] = lead          # one blank per level
        return oracle(sub, out)
    _, indent, marker = wrapper(lang)
    want = ref_tokens(case["line"], lang)
    if "err" in out:
        if want is not None:
            return {"what": "wrap_line raised ValueError on a line whose quotes are balanced", "sig": "raises"}
        return None
    if want is None:
        return {"what": f"unterminated quote accepted: {out['ok']}", "sig": "accepts-open-quote"}
    lines = out["ok"]
    base = case["level"] * len(indent)
    stripped = []
    for k, ln in enumerate(lines):
        if k < len(lines) - 1:
            if not ln.endswith(marker):
                return {"what": f"line {k} does not end in the continuation marker: {ln!r}", "sig": "marker"}
            ln = ln[:-1]
        stripped.append(ln)
        toks_here = ref_tokens(ln, lang)
        if toks_here is None:
            return {"what": f"a quoted string is split across lines (line {k}: {ln!r})", "sig": "split-string"}
        if len(toks_here) >= 2 and base + len(lines[k]) > case["width"]:
            return {"what": f"line {k} holds {len(toks_here)} tokens but is {base + len(lines[k])} > width {case['width']} wide", "sig": "width"}
    got = ref_tokens(" ".join(stripped), lang)
    if got != want:
        return {"what": f"token sequence changed: {want} -> {got}", "sig": "tokens"}
    if lang == "python":
        try:
            a0 = ast.dump(ast.parse(case["line"].strip()))
        except (SyntaxError, ValueError):
            a0 = None
        if a0 is not None:
            try:
                a1 = ast.dump(ast.parse("\n".join(lines)))
            except (SyntaxError, ValueError) as e:
                return {"what": f"wrapped Python line no longer parses: {e}", "sig": "py-syntax"}
            if a0 != a1:
                return {"what": "wrapped Python line parses to a different syntax tree", "sig": "py-ast"}
    return None


def nontrivial(case, out):
    return len(out.get("ok", [])) >= 2
