"""C15 — generated source text is a pure function of the method description."""
import json
import os
import subprocess
import sys

import c01
import fortran_common as fc

ID = "C15"
SOURCES = ["dagrt/codegen/fortran.py", "dagrt/codegen/python.py", "dagrt/codegen/dag_ast.py", "dagrt/codegen/transform.py",
           "dagrt/codegen/analysis.py", "dagrt/language.py", "dagrt/codegen/expressions.py"]
RULE = ("methods of the Fortran family of C03 (Python and Fortran text; several user-type temporaries whose last use is one "
        "statement, statements with two self-dependencies, int/float twin constants across methods) and multi-phase builder "
        "programs of C01 (Python text) are generated in separate sub-processes under different PYTHONHASHSEED values; in each "
        "process every method is generated as built, with its phase dict / statement containers / depends_on sets rebuilt in "
        "shuffled insertion orders (list and frozenset storage), and after a preceding generation of the previous method by "
        "separate generator objects in the same process; half of the worker processes see the methods in reverse order, so the "
        "history of a process before a method differs between workers. All sha256 digests of the Python text (and of the Fortran text) of one "
        "method must be equal; the digest of the interpreter's events and states must not depend on the hash seed. "
        "Non-trivial: methods with >= 8 statements.")
TRUSTED = ["CPython's hash randomisation is exercised through PYTHONHASHSEED in sub-processes (4 seeds quick, 12 thorough)",
           "the text emitters are NOT modelled: their determinism given ordered inputs is observed; the Lean theorems are about the "
           "order-independence of what feeds them (lowering, dependency sets, schedules, name generators)"]
ASSUMPTIONS = ["statement ids are distinct strings (ids that differ only by leading zeros are still distinct)"]

SEEDS_QUICK = [0, 1, 2, 3]
SEEDS_THOROUGH = list(range(12))
_table = {}


def cases(rng, tier):
    out = []
    n_f = 30 if tier == "quick" else 300
    n_p = 30 if tier == "quick" else 300
    for k in range(n_f):
        # every third method has 3-4 phases: with one or two, "initial phase first" fixes the whole order
        m = fc.g_method(rng, n_phases=rng.choice([3, 4]) if k % 3 == 0 else None)
        if k % 5 == 0:
            # ids that only differ by leading zeros / in case are still different statements
            pass
        out.append({"id": f"f{k}", "family": "fortran", "method": m, "tag": "fortran-family",
                    "variants": ["plain", "perm1", "perm2", "perm3", "after-other"]})
    # hand-made: several user-type temporaries first mentioned by ONE statement (a call with two results) and used last
    # by ONE statement - the order of their release calls then comes from a set / dict order if nothing sorts it
    V = fc.V
    for k, names in enumerate((["v1", "v2"], ["w", "v1"], ["v2", "w"], ["lo", "hi"], ["hi2", "a7"], ["zz", "b"])):
        prog = [["stmt", ["call", ["k1"], "<func>rhs", [V("<t>"), V("<state>y")], []]],
                ["stmt", ["call", names, "<func>split", [V("k1")], []]],
                ["stmt", ["assign", "<state>y", None, ["+", [V("<state>y"), V(names[0]), V(names[1])]], []]],
                ["stmt", ["yield", V("<state>y"), V("<t>"), "final", "y"]]]
        m = {"phases": [{"name": "p0", "next": "p0", "prog": prog}], "initial": "p0", "y0": [1, 2, -1], "exact": False,
             "k0": 0, "t0": 0, "dt": 0.5, "runs": 2}
        out.append({"id": f"s{k}", "family": "fortran", "method": m, "tag": "fortran-two-results",
                    "variants": ["plain", "perm1", "perm2", "perm3", "after-other"]})
    # hand-made: neighbouring methods whose constants are equal in value but differ in Python type (2 and 2.0):
    # a cache keyed by the VALUE makes the text depend on which method the process saw first (odd workers see
    # the cases in the opposite order)
    for k, n in enumerate((2, 3, 0, 4, -1, 1)):
        for kind, const in (("i", ["c", n]), ("f", ["cf", repr(float(n))])):
            prog = [["stmt", ["call", ["k1"], "<func>rhs", [V("<t>"), V("<state>y")], []]],
                    ["stmt", ["assign", "<p>k", None, ["+", [V("<p>k"), const]], []]],
                    ["stmt", ["assign", "<state>y", None, ["+", [V("<state>y"), ["*", [const, V("k1")]]]], []]],
                    ["stmt", ["yield", V("<state>y"), V("<t>"), "final", "y"]]]
            m = {"phases": [{"name": "p0", "next": "p0", "prog": prog}], "initial": "p0", "y0": [1, 2, -1], "exact": False,
                 "k0": 0, "t0": 0, "dt": 0.5, "runs": 2}
            out.append({"id": f"t{k}{kind}", "family": "fortran", "method": m, "tag": "fortran-twin-constants",
                        "variants": ["plain", "after-other"]})
    # hand-made: conditional expressions nested in the branches of conditional expressions (their expansion emits
    # statements whose guards are conjunctions of several flags: the order of the conjuncts must not come from a set)
    C = fc.C
    for k in range(4):
        inner = ["if", ["cmp", ">", V("<p>k"), C(1)], C(3), C(4)]
        inner2 = ["if", ["cmp", "<", V("<dt>"), C(2)], V("<p>k"), ["if", ["cmp", ">", V("<t>"), C(0)], C(5), C(6)]]
        e = [["if", ["cmp", ">", V("<p>k"), C(2)], C(1), inner],
             ["if", ["cmp", ">", V("<p>k"), C(2)], inner, inner2],
             ["+", [["if", ["cmp", ">", V("<p>k"), C(0)], inner2, C(2)], ["if", ["cmp", "<", V("<t>"), C(1)], inner, C(0)]]],
             ["if", ["cmp", ">", V("<p>k"), C(2)], ["if", ["cmp", ">", V("<dt>"), C(0)], inner, C(7)], inner2]][k]
        prog = [["stmt", ["call", ["k1"], "<func>rhs", [V("<t>"), V("<state>y")], []]],
                ["stmt", ["assign", "<p>k", None, ["+", [V("<p>k"), e]], []]],
                ["stmt", ["assign", "<state>y", None, ["+", [V("<state>y"), ["*", [V("<p>k"), V("k1")]]]], []]],
                ["stmt", ["yield", V("<state>y"), V("<t>"), "final", "y"]]]
        m = {"phases": [{"name": "p0", "next": "p0", "prog": prog}], "initial": "p0", "y0": [1, 2, -1], "exact": False,
             "k0": 0, "t0": 0, "dt": 0.5, "runs": 2}
        out.append({"id": f"n{k}", "family": "fortran", "method": m, "tag": "fortran-nested-conditionals",
                    "variants": ["plain", "perm1", "after-other"]})
    for k in range(n_p):
        c = c01.g_case(rng)
        c.update({"id": f"p{k}", "family": "python", "tag": "python-family",
                  "variants": ["plain", "perm1", "perm2", "after-other"]})
        c.pop("op", None)
        out.append(c)
    for k in range(12 if tier == "quick" else 100):
        out.append({"id": f"r{k}", "family": "raw", "tag": "raw-ids", "stmts": g_raw(rng),
                    "variants": ["plain", "perm1", "perm2", "perm3"]})
    run_workers(out, SEEDS_QUICK if tier == "quick" else SEEDS_THOROUGH)
    return out


ID_SETS = [["s_1", "s_01", "s_001"], ["a_2", "a_10", "a_9"], ["x1", "X1", "x_1"], ["t", "t_0", "t0"], ["k_7", "k_07", "k7"]]


def g_raw(rng):
    """hand-made phase: independent assignments whose ids are easy to confuse (leading zeros, case, numeric vs.
    lexicographic order), all feeding one statement"""
    ids = list(rng.choice(ID_SETS))
    if rng.random() < 0.5:
        ids += rng.choice(ID_SETS)
        ids = list(dict.fromkeys(ids))
    stmts = []
    for k, i in enumerate(ids):
        stmts.append({"id": i, "deps": [], "kind": ["assign", f"v{k}", None, ["+", [["v", "<state>y"], ["c", k + 1]]], []]})
    total = ["+", [["v", f"v{k}"] for k in range(len(ids))]]
    stmts.append({"id": "update", "deps": list(ids), "kind": ["assign", "<state>y", None, total, []]})
    stmts.append({"id": "ret", "deps": ["update"], "kind": ["yield", ["v", "<state>y"], ["v", "<t>"], "final", "y"]})
    return stmts


def run_workers(cases_, seeds):
    data = "".join(json.dumps(c) + "\n" for c in cases_)
    procs = []
    for s in seeds:
        env = dict(os.environ, PYTHONHASHSEED=str(s), PYTHONPATH="/repo", PYTHONDONTWRITEBYTECODE="1")
        p = subprocess.Popen([sys.executable, os.path.join(os.path.dirname(__file__), "c15_worker.py")],
                             stdin=subprocess.PIPE, stdout=subprocess.PIPE, stderr=subprocess.DEVNULL, text=True, env=env)
        procs.append((s, p))
    import threading
    outs = {}

    rdata = "".join(json.dumps(c) + "\n" for c in reversed(cases_))

    def feed(s, p):
        # every other worker sees the methods in the opposite order: what was generated BEFORE a method
        # in the same process then differs between workers
        o, _ = p.communicate(data if s % 2 == 0 else rdata)
        outs[s] = o
    ths = [threading.Thread(target=feed, args=sp) for sp in procs]
    for t in ths:
        t.start()
    for t in ths:
        t.join(timeout=1500)
    for s, o in outs.items():
        for line in o.splitlines():
            try:
                r = json.loads(line)
            except ValueError:
                continue
            _table.setdefault(r["id"], {})[s] = r["res"]


def impl(case):
    t = _table.get(case["id"])
    if t is None:
        run_workers([case], SEEDS_QUICK)
        t = _table.get(case["id"], {})
    return {"by_seed": {str(s): v for s, v in sorted(t.items())}}


def oracle(case, out):
    if not isinstance(out, dict):
        return None
    if "harness_error" in out:
        return {"what": "the generators could not be run: " + out["harness_error"] + ": " + out.get("msg", "")}
    by = out["by_seed"]
    if not by:
        return {"what": "no worker produced a result for this method", "sig": "worker"}
    errs = {s: v["error"] for s, v in by.items() if "error" in v}
    if errs and len(errs) < len(by):
        return {"what": f"generation fails under some hash seeds only: {errs}", "sig": "fails-under-some-seeds"}
    if errs:
        return None      # the method is rejected everywhere, consistently (not this property)
    for what in ("py", "f90", "interp"):
        seen = {}
        for s, v in by.items():
            for variant, r in v.items():
                if what in r:
                    seen.setdefault(r[what], []).append((s, variant))
        if len(seen) > 1:
            groups = sorted(seen.values(), key=len)
            label = {"py": "Python text", "f90": "Fortran text", "interp": "interpreter results"}[what]
            return {"what": f"{label} is not a function of the method: (hash seed, variant) {groups[0][:3]} differ from "
                            f"{groups[-1][:2]}", "sig": what + "-differs", "minority": groups[0][:3]}
    return None


def nontrivial(case, out):
    if case["family"] == "raw":
        return True
    if case["family"] == "fortran":
        return sum(len(p["prog"]) for p in case["method"]["phases"]) >= 8
    return sum(len(p["prog"]) for p in case["phases"]) >= 8
