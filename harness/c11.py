"""C11 — a failing user function leaves the stepper consistent and resumable."""
import builtins
import copy

import c01
import c02
import sem_common as sc

ID = "C11"
SOURCES = ["dagrt/exec_numpy.py", "dagrt/language.py", "dagrt/codegen/python.py"]
RULE = ("the multi-phase builder programs of C01 (every phase calls user functions: in expressions, in loop bodies, in loop "
        "bounds, as multi-result and keyword call statements; in a third of the cases also inside statement CONDITIONS "
        "(guard c replaced by g(c, y=0), same truth value), in a third the temporaries t1, t2 are spelled <t>_new, <dt>_used) x a fault plan 'the k-th call of a user function raises' for k spread over "
        "all calls of the run, so that 0..4 steps complete before the failure; both back ends (REAL NumpyInterpreter, class "
        "emitted by the REAL Python CodeGenerator). Oracle on the real objects: (1) the very exception object that was raised "
        "reaches the caller of run(); (2) afterwards no per-step variable is visible (interpreter: keys of the context; "
        "generated class: no new instance attribute); (3) every persistent variable holds its value from before the step or a "
        "value the written program assigns to it in that step (all values assigned in a fault-free program-order execution of the "
        "step by the independent executor); (4) interpreter: a variable all of whose writers transitively depend on the "
        "statement that made the failing call is unchanged; (5) stepping on (2 further steps, no more faults) behaves exactly "
        "like a fresh stepper started in the snapshot of that state and phase. Compared with the Lean model (interpreter, when "
        "the failing statement has no loop): persistent state and next phase after the aborted step = executed prefix of the "
        "emitted statements, then the per-step variables discarded, successor already advanced. Non-trivial: the fault was "
        "reached and >= 1 statement of the step had been executed before it.")
TRUSTED = ["the order in which the interpreter executed the statements of the failing step is read off the real controller "
           "(wrapper around evaluate_condition installed by the harness, not in /repo)",
           "Python generator finalisation after an exception (GeneratorExit) is exercised, not modelled"]
ASSUMPTIONS = list(c01.ASSUMPTIONS)


class InjectedKey(KeyError):
    """a failed look-up inside the user's function (a KeyError subclass)"""


EXC_CLASSES = ["Injected", "InjectedKey", "KeyError", "IndexError", "ValueError", "RuntimeError", "ZeroDivisionError",
               "AttributeError", "TypeError", "NameError", "LookupError", "ArithmeticError", "AssertionError", "OSError"]


class Injected(Exception):
    pass


class InjectedAttr(AttributeError):
    """a failed attribute look-up inside the user's function (an AttributeError subclass)"""


class Faulty:
    """the deterministic user functions of sem_common with a global call counter; the k-th call raises"""

    def __init__(self, k, exc_class="Injected"):
        self.k = k
        self.n = 0
        self.exc = None
        self.on_fail = None
        self.exc_class = exc_class
        self.in_cond = False        # set by the harness while a statement's condition is being evaluated (interpreter)
        self.cond_calls = []        # indices of the calls made from inside a condition

    def wrap(self, fn):
        def f(*a, **kw):
            self.n += 1
            if self.in_cond:
                self.cond_calls.append(self.n)
            if self.k is not None and self.n == self.k:
                cls = {"Injected": Injected, "InjectedKey": InjectedKey, "InjectedAttr": InjectedAttr}.get(self.exc_class) or getattr(builtins, self.exc_class)
                self.exc = cls(f"call {self.n}")
                self.exc._dagrt_verif_injected = True
                if self.on_fail:
                    self.on_fail()
                raise self.exc
            return fn(*a, **kw)
        return f

    def funcs(self):
        return {name: self.wrap(fn) for name, fn in sc.USER_FUNCS.items()}


ODD_TEMPS = {"t1": "<t>_new", "t2": "<dt>_used"}      # per-step names that merely BEGIN like the two persistent scalars


def _rename(j, m):
    if isinstance(j, str):
        return m.get(j, j)
    if isinstance(j, list):
        return [_rename(x, m) for x in j]
    if isinstance(j, dict):
        return {k: _rename(v, m) for k, v in j.items()}
    return j


def calls_into_conditions(code, seed):
    """the same program with some guards `c` replaced by `<func>g(c, y=0)` (= c - 0: same truth value): a user
    function called while a statement's CONDITION is evaluated, which the builder never produces (it assigns
    conditions to flags first) but hand-made statements may"""
    import random
    from pymbolic.primitives import CallWithKwargs, Variable
    from dagrt.language import DAGCode, ExecutionPhase
    rr = random.Random(seed)
    phases = {}
    for name in sorted(code.phases):
        ph = code.phases[name]
        stmts = []
        for st in ph.statements:
            c = getattr(st, "condition", True)
            if c is not True and rr.random() < 0.6:
                st = st.copy(condition=CallWithKwargs(Variable("<func>g"), (c,), {"y": 0}))
            stmts.append(st)
        phases[name] = ExecutionPhase(name, ph.next_phase, stmts)
    return DAGCode(phases, code.initial_phase)


def build_code(case):
    c = case
    if case.get("odd_temps"):
        c = dict(case, phases=_rename(case["phases"], ODD_TEMPS))
    code = c01.build_code(c)
    if case.get("cond_calls"):
        code = calls_into_conditions(code, case["cond_calls"])
    return code


def count_calls(case):
    """number of user-function calls in a fault-free run (interpreter)"""
    fz = Faulty(None)
    code = build_code(case)
    try:
        run_to_fault(case, "interp", code, fz)
    except c01.BackendError:
        return 0, []
    return fz.n, fz.cond_calls


def make_backend(case, kind, code, funcs):
    import numpy as np
    if kind == "interp":
        from dagrt.exec_numpy import NumpyInterpreter
        m = NumpyInterpreter(code, funcs)
        m.functions["<builtin>array"] = sc.b_array
        names = None
    else:
        from dagrt.codegen.python import CodeGenerator
        cg = CodeGenerator("Method")
        cls = cg.get_class(code)
        cls._builtin_array = staticmethod(sc.b_array)
        m = cls(funcs)
        names = cg._name_manager
    return m, names


def get_state(m, kind, names, obs):
    """persistent variables + next phase of a REAL stepper"""
    out = {}
    for n in obs:
        if kind == "interp":
            v = m.context.get(n)
        else:
            attr = names.name_global(n)
            v = getattr(m, attr[5:], None)
        out[n] = sc.val_js(copy.deepcopy(v))
    return {"next": m.next_phase, "vars": out}


def visible_names(m, kind):
    if kind == "interp":
        return sorted(m.context.keys())
    return sorted(k for k in vars(m).keys())


def consume(gen, max_iters):
    """events of run() until max_iters steps; returns (canonical events, exception or None)"""
    evs = []
    n = 0
    try:
        for e in gen:
            ce = c01.canon_event(e, None)
            evs.append(ce)
            if ce[0] in ("completed", "failed"):
                n += 1
                if n >= max_iters:
                    break
    except (sc.ErrA, sc.ErrB) as ex:
        evs.append(["raised", type(ex).__name__])
    except sc.Inexact:
        raise
    except Exception as ex:
        if getattr(ex, "_dagrt_verif_injected", False):
            return evs, ex
        if type(ex).__name__ == "StepError":
            evs.append(["raised", ex.condition])
        else:
            raise c01.BackendError(type(ex).__name__ + ": " + str(ex)[:100])
    finally:
        gen.close()
    return evs, None


def run_to_fault(case, kind, code, fz):
    import numpy as np
    m, names = make_backend(case, kind, code, fz.funcs())
    m.set_up(t_start=case["t0"], dt_start=case["dt"],
             context={"y": case["y0"], "v": np.array([float(x) for x in case["v0"]])})
    obs = c01.observe(case)
    info = {"pre": None, "executed": None, "attrs_before": None}
    step_log = []          # statements of the current step, in the order the interpreter took them

    if kind == "interp":
        orig_eval = m.evaluate_condition

        def evaluate_condition(stmt):
            step_log.append(stmt.id)
            fz.in_cond = True
            try:
                return orig_eval(stmt)
            finally:
                fz.in_cond = False
        m.evaluate_condition = evaluate_condition
        orig_reset = m.exec_controller.reset

        def reset():
            del step_log[:]
            info["pre"] = get_state(m, kind, names, obs)
            info["phase"] = m.next_phase
            orig_reset()
        m.exec_controller.reset = reset
    else:
        orig_rss = m.run_single_step

        def run_single_step():
            info["pre"] = get_state(m, kind, names, obs)
            info["phase"] = m.next_phase
            info["attrs_before"] = visible_names(m, kind)
            return orig_rss()
        m.run_single_step = run_single_step
    fz.on_fail = lambda: info.__setitem__("executed", list(step_log))
    evs, exc = consume(m.run(t_end=case["t_end"], max_steps=case["max_steps"]), case["max_iters"])
    return m, names, evs, exc, info


def resume_vs_fresh(case, kind, code, m, names):
    """events and states of 2 further steps: the stepper that failed vs. a fresh one started from a snapshot"""
    obs = c01.observe(case)
    snap_vars = {}
    if kind == "interp":
        snap_vars = {k: copy.deepcopy(v) for k, v in m.context.items()}
    else:
        snap_vars = {k: copy.deepcopy(v) for k, v in vars(m).items()
                     if k.startswith("global_") or k in ("t", "dt")}
    nxt = m.next_phase
    fz2 = Faulty(None)
    fresh, names2 = make_backend(case, kind, code, fz2.funcs())
    if kind == "interp":
        fresh.context.update(snap_vars)
    else:
        for k, v in snap_vars.items():
            setattr(fresh, k, v)
    fresh.next_phase = nxt
    out = []
    for stepper, nm in ((m, names), (fresh, names2)):
        try:
            evs, exc = consume(stepper.run(max_steps=2), 3)
            out.append({"events": evs, "state": get_state(stepper, kind, nm, obs), "exc": exc is not None})
        except c01.BackendError as ex:
            out.append({"error": str(ex)})
    return out


# ---------------------------------------------------------------- cases

def g_case(rng):
    case = c01.g_case(rng)
    case["op"] = "C11.abort"
    case["tag"] = "fault"
    case["kfrac"] = rng.random()
    case["max_steps"] = rng.randint(2, 5)
    case["exc_class"] = rng.choice(EXC_CLASSES)
    if rng.random() < 0.4:
        # a user-function call in a LOOP BOUND (value-preserving: g(x, y=0) = x), so that the fault plan can hit
        # the first evaluation of a bound, before the loop counter exists
        loops = [op[1][4] for ph in case["phases"] for op in ph["prog"]
                 if op[0] == "stmt" and op[1][0] == "assign" and op[1][4]]
        for ls in loops:
            if rng.random() < 0.7:
                l = rng.choice(ls)
                l[2] = ["call", "<func>g", [l[2]], [["y", ["c", 0]]]]
                case["tag"] = "fault-call-in-bound"
    if rng.random() < 0.35:
        case["cond_calls"] = rng.randint(1, 10 ** 6)
        case["tag"] += "+call-in-condition"
    if rng.random() < 0.3:
        case["odd_temps"] = True
        case["tag"] += "+temporaries-named-like-t-dt"
    return case


def cases(rng, tier):
    n = 0
    want = 150 if tier == "quick" else 3000
    tries = 0
    while n < want and tries < want * 6:
        tries += 1
        c = g_case(rng)
        try:
            total, in_cond = count_calls(c)
        except (sc.Inexact, ValueError):
            continue
        if total == 0:
            continue
        c["k"] = 1 + int(c["kfrac"] * total) % total
        c["total_calls"] = total
        c["exc_class"] = EXC_CLASSES[n % len(EXC_CLASSES)]          # every class equally often
        if in_cond and rng.random() < 0.7:
            # fail a call made from inside a condition; half of these with the exception class that a missing
            # attribute raises (the one a sloppy `getattr`-style fallback around the condition would swallow)
            c["k"] = rng.choice(in_cond)
            c["tag"] += "+fails-in-condition"
            if rng.random() < 0.5:
                c["exc_class"] = rng.choice(["AttributeError", "InjectedAttr"])
        n += 1
        yield c


_cache = {}


def run_case(case):
    key = c01.ser_key(case)
    if key in _cache:
        return _cache[key]
    # no eviction: the order in which the real controller takes independent statements depends on the
    # addresses of the statement objects (frozenset of objects hashed by identity), so a second run of the
    # same case in this process may fail at a different prefix; impl, model_input and oracle must see ONE run
    code = build_code(case)
    res = {}
    for kind in ("interp", "gen"):
        fz = Faulty(case["k"], case.get("exc_class", "Injected"))
        try:
            m, names, evs, exc, info = run_to_fault(case, kind, code, fz)
        except c01.BackendError as ex:
            res[kind] = {"error": str(ex), "injected": fz.exc is not None}
            continue
        r = {"events": evs, "reached": exc is not None, "same_object": exc is fz.exc and exc is not None,
             "injected": fz.exc is not None,
             "calls": fz.n, "pre": info["pre"], "phase": info.get("phase")}
        if exc is not None:
            obs = c01.observe(case)
            r["post"] = get_state(m, kind, names, obs)
            r["visible"] = visible_names(m, kind)
            r["attrs_before"] = info["attrs_before"]
            if kind == "gen":
                r["attr_of"] = {v: names.name_global(v)[5:] for ph in code.phases.values() for st in ph.statements
                                for v in (st.get_read_variables() | st.get_written_variables()) if c01.persistent(v)}
            r["executed"] = info["executed"]
            r["resume"] = resume_vs_fresh(case, kind, code, m, names)
        res[kind] = r
    _cache[key] = res
    return res


def impl(case):
    try:
        res = run_case(case)
    except sc.Inexact:
        return {"dropped": "inexact"}
    except ValueError as ex:
        if "builder failed" in str(ex):
            return {"dropped": "builder failed"}
        raise
    # the user function DID raise, but what reached the caller of run() is nothing / another exception
    lost = {k: (res[k].get("error") or "no exception reached the caller") for k in res
            if res[k].get("injected") and ("error" in res[k] or not res[k].get("reached"))}
    if lost:
        return {"lost": lost}
    if any("error" in res[k] for k in res):
        return {"dropped": "back end raises " + str([res[k].get("error") for k in res])[:60]}
    ri = res["interp"]
    if not ri["reached"]:
        return {"dropped": "fault not reached"}
    # what the Lean model is asked: the interpreter's aborted step
    code = build_code(case)
    ph = code.phases[ri["phase"]]
    failing = ri["executed"][-1] if ri["executed"] else None
    st = ph.id_to_stmt[failing] if failing else None
    if st is None or getattr(st, "loops", None):
        return {"post": None, "note": "failing statement has a loop (partial effect not modelled)"}
    return {"post": {"next": ri["post"]["next"], "vars": [[n, ri["post"]["vars"][n]] for n in c01.observe(case)]}}


def model_input(case):
    res = run_case(case)
    ri = res["interp"]
    code = build_code(case)
    phname = ri["phase"]
    phases = _rename(case["phases"], ODD_TEMPS) if case.get("odd_temps") else case["phases"]
    ph = [p for p in phases if p["name"] == phname][0]
    stmts = sorted(code.phases[phname].statements, key=lambda s: c02.idx(s.id))
    failing = ri["executed"][-1] if ri["executed"] else None
    st = code.phases[phname].id_to_stmt[failing] if failing else None
    if st is None or getattr(st, "loops", None):
        return {"op": "none"}
    prefix = [c02.idx(i) for i in ri["executed"][:-1]]
    store = [[n, v] for n, v in ri["pre"]["vars"].items() if v is not None]
    return {"op": "C11.abort", "phase": {"name": phname, "next": ph["next"], "ops": c02.model_ops(ph["prog"], stmts)},
            "store": store, "observe": c01.observe(case), "prefix": prefix}


def normalise_pair(case, a, b):
    if isinstance(a, dict) and "lost" in a:
        return None, None          # decided by the oracle
    if isinstance(a, dict) and a.get("post") is None and "note" in a:
        ctx.count("model:not-asked(loop)")
        return None, None
    if isinstance(b, dict) and c01.has_undef(b):
        ctx.count("model:undef")
        return None, None
    return a, b


# ---------------------------------------------------------------- oracle

def assigned_values(case, phname, pre_vars):
    """every value a fault-free program-order execution of the step assigns to each variable"""
    ph = [p for p in case["phases"] if p["name"] == phname][0]
    st = {}
    for n, v in pre_vars.items():
        if v is not None:
            st[n] = list(v[1]) if isinstance(v, list) and v and v[0] == "arr" else v

    class Rec(dict):
        def __init__(self, *a):
            super().__init__(*a)
            self.log = {}
            self.elem_log = {}

        def __setitem__(self, k, v):
            self.log.setdefault(k, []).append(copy.deepcopy(v))
            super().__setitem__(k, v)
    rec = Rec(st)
    try:
        c01.ref_step(ph["prog"], rec)
    except c01.RefUndefined:
        return None
    # element writes mutate lists in place: also record the final arrays and every intermediate is not needed:
    # an array variable is compared element-wise below
    return rec.log, rec


def oracle(case, out):
    if not isinstance(out, dict) or "dropped" in out:
        return None
    if "harness_error" in out:
        return {"what": "the steppers could not be run: " + out["harness_error"] + ": " + out.get("msg", "")}
    if "lost" in out:
        labels = {"interp": "interpreter", "gen": "generated Python class"}
        k, v = sorted(out["lost"].items())[0]
        return {"what": f"{labels[k]}: the {case.get('exc_class', 'Injected')} raised by the user function (call {case['k']}) did not "
                        f"reach the caller of run(): {v}", "sig": k + "-exception-lost"}
    res = run_case(case)
    code = build_code(case)
    for kind, label in (("interp", "interpreter"), ("gen", "generated Python class")):
        r = res[kind]
        if "error" in r or not r["reached"]:
            continue
        if not r["same_object"]:
            return {"what": f"{label}: the exception raised by the user function is not the object that reaches the caller",
                    "sig": kind + "-exception-identity"}
        # (2) temporaries
        if kind == "interp":
            bad = [n for n in r["visible"] if not c01.persistent(n)]
            if bad:
                return {"what": f"{label}: per-step variables {bad} are visible after the failed step", "sig": kind + "-temporaries"}
        else:
            # instance attributes that hold persistent variables of this program; nothing else may appear
            pers = {v for ph in code.phases.values() for st in ph.statements
                    for v in (st.get_read_variables() | st.get_written_variables()) if c01.persistent(v)}
            allowed = {r["attr_of"].get(v) for v in pers}
            bad = [n for n in r["visible"] if n not in (r["attrs_before"] or []) and n not in allowed]
            if bad:
                return {"what": f"{label}: new instance attributes {bad} after the failed step", "sig": kind + "-temporaries"}
        # (3) justified values
        av = assigned_values(case, r["phase"], r["pre"]["vars"])
        if av is not None:
            log, final = av
            for n, post in r["post"]["vars"].items():
                pre = r["pre"]["vars"].get(n)
                if post == pre:
                    continue
                if isinstance(post, list) and post and post[0] == "arr":
                    # element-wise: each element is the old one or a value assigned to some element
                    allowed = set()
                    for vals in [log.get(n, [])]:
                        for v in vals:
                            if isinstance(v, list):
                                allowed.update(x for x in v if x is not None)
                    allowed.update(x for x in (final.get(n) or []) if x is not None)
                    old = pre[1] if isinstance(pre, list) else []
                    for i, x in enumerate(post[1]):
                        if i < len(old) and x == old[i]:
                            continue
                        if x not in allowed and x not in final.elem_log.get(n, set()):
                            return {"what": f"{label}: {n}[{i}] = {x} after the failed step is neither the old value nor a value "
                                            f"the program assigns", "sig": kind + "-unjustified"}
                else:
                    vals = [v for v in log.get(n, []) if not isinstance(v, list)]
                    if post not in vals:
                        return {"what": f"{label}: {n} = {post} after the failed step is neither its value before the step "
                                        f"({pre}) nor a value the program assigns to it ({vals[:6]})", "sig": kind + "-unjustified"}
        # (4) dependent writes (interpreter only: we know which statement failed)
        if kind == "interp" and r["executed"]:
            ph = code.phases[r["phase"]]
            failing = r["executed"][-1]
            desc = descendants(ph, failing)
            for n, post in r["post"]["vars"].items():
                writers = [s.id for s in ph.statements if n in s.get_written_variables()]
                if writers and all(w in desc for w in writers) and post != r["pre"]["vars"].get(n):
                    return {"what": f"{label}: every write of {n} depends on the failed call (statement {failing}) but {n} "
                                    f"changed from {r['pre']['vars'].get(n)} to {post}", "sig": "dependent-write-happened"}
        # (5) resume = fresh
        a, b = r["resume"]
        if a != b:
            return {"what": f"{label}: stepping on after the failure differs from a fresh stepper started in that state and "
                            f"phase: {str(a)[:150]} vs {str(b)[:150]}", "sig": kind + "-resume"}
    return None


def descendants(ph, sid):
    """statements that transitively depend on sid (sid excluded)"""
    out = set()
    changed = True
    while changed:
        changed = False
        for s in ph.statements:
            if s.id not in out and s.id != sid and (sid in s.depends_on or out & set(s.depends_on)):
                out.add(s.id)
                changed = True
    return out


def nontrivial(case, out):
    try:
        r = run_case(case)["interp"]
    except Exception:
        return False
    return bool(r.get("reached")) and len(r.get("executed") or []) >= 2


def shrink(case, still_fails):
    return c01.shrink(case, still_fails)
