"""C16 — fusing two methods runs both on shared persistent state without interference."""
import sem_common as sc
import ser

ID = "C16"
SOURCES = ["dagrt/transform.py", "dagrt/language.py"]
RULE = ("random pairs of builder programs (2-7 calls each: assignments, guarded blocks, looped array assignments, calls, one yield) "
        "that deliberately share temporary names (a, t1, i, <cond>), statement ids (same phase name; in 40 % of the cases ids as a "
        "person writes them: step, step_0, k_1, ... so that renamed ids meet old ids) and reads of <t>/<dt>/<state>, "
        "each writing its own persistent variables; fused through the REAL fuse_two_dags with three predicates (default, rename all, "
        "rename none). Compared with the Lean model: every fused statement (id, depends_on, guard, kind) — the iteration orders of "
        "the clash set and of the second statement set are read off the real objects. Oracle on the real fused DAG: ids unique, each "
        "method's dependency sub-graph isomorphic to its original with no cross edges, per-step names of the two parts disjoint "
        "(default predicate), persistent names and <t>/<dt> unrenamed, and the REAL interpreter yields for each method the same "
        "persistent results as running it alone. Non-trivial: at least one clashing name was renamed.")
TRUSTED = ["pymbolic.imperative.transform (disambiguate_identifiers, fuse_statement_streams_with_unique_ids) and "
           "pytools.UniqueNameGenerator are third party: modelled, validated by this correspondence run",
           "iteration order of CPython sets is an input of the model (any order is covered by the theorems)"]


def gen_method(rng, which):
    """list of builder ops; method 'A' owns <state>y and <p>k, method 'B' owns <state>z and <p>m"""
    own_s, own_p = ("<state>y", "<p>k") if which == "A" else ("<state>z", "<p>m")
    ops = [["stmt", ["assign", "a", None, ["+", [["v", own_s], ["c", rng.randint(1, 3)]]], []]],
           ["stmt", ["assign", "t1", None, ["*", [["v", "a"], ["v", "<dt>"]]], []]]]
    for _ in range(rng.randint(0, 5)):
        r = rng.random()
        if r < 0.3:
            ops.append(["stmt", ["assign", rng.choice(["a", "t1", "t2" if which == "B" else "b"]), None,
                                 ["+", [["v", "a"], ["v", "t1"], ["c", rng.randint(0, 4)]]], []]])
        elif r < 0.5:
            ops.append(["if", ["cmp", rng.choice(["<", ">"]), ["v", "a"], ["c", rng.randint(0, 6)]]])
            ops.append(["stmt", ["assign", "t1", None, ["+", [["v", "t1"], ["c", 1]]], []]])
            ops.append(["endif"])
            if rng.random() < 0.5:
                ops += [["else"], ["stmt", ["assign", "a", None, ["*", [["v", "a"], ["c", 2]]], []]], ["endelse"]]
        elif r < 0.65:
            ops.append(["stmt", ["assign", "w", None, ["call", "<builtin>array", [["c", 3]], []], []]])
            if rng.random() < 0.5:
                # loop bounds held in temporaries that the other method uses too (renaming must reach BOTH bounds)
                lo_v = rng.randint(0, 2) if which == "A" else rng.randint(0, 1)
                ops.append(["stmt", ["assign", "lo", None, ["c", lo_v], []]])
                ops.append(["stmt", ["assign", "hi", None, ["c", rng.randint(2, 3)], []]])
                bounds = [["i", ["v", "lo"], ["v", "hi"]]]
                ops.append(["stmt", ["assign", "w", ["v", "i"], ["c", 0], [["i", ["c", 0], ["c", 3]]]]])
            else:
                bounds = [["i", ["c", 0], ["c", 3]]]
            ops.append(["stmt", ["assign", "w", ["v", "i"], ["+", [["v", "i"], ["v", "a"]]], bounds]])
            ops.append(["stmt", ["assign", "t1", None, ["+", [["v", "t1"], ["sub", ["v", "w"], ["c", 1]]]], []]])
        elif r < 0.72:
            ops.append(["stmt", ["call", ["a", "t1"], "<func>h", [["v", "t1"]], []]])
        elif r < 0.8:
            ops.append(["stmt", ["call", ["a"], "<func>g", [["v", "t1"]], [["y", ["v", "a"]]]]])
        else:
            ops.append(["stmt", ["assign", own_p, None, ["+", [["v", "a"], ["v", "<t>"]]], []]])
    ops.append(["stmt", ["assign", own_s, None, ["+", [["v", own_s], ["v", "t1"]]], []]])
    if rng.random() < 0.5:
        ops.append(["stmt", ["yield", ["v", own_s], ["v", "<t>"], "final", own_s[-1]]])
    return ops


ID_POOL = [b + sfx for b in ("step", "k", "s", "x", "stage", "r") for sfx in ("", "_0", "_1", "_0_0", "_2", "_1_0")]


def cases(rng, tier):
    for _ in range(400 if tier == "quick" else 6000):
        c = {"op": "C16.fuse", "tag": "random", "A": gen_method(rng, "A"), "B": gen_method(rng, "B"),
             "pred": rng.choice(["default", "default", "default", "all", "none"]),
             "store": [["<state>y", rng.randint(0, 5)], ["<state>z", rng.randint(0, 5)], ["<p>k", 0], ["<p>m", 0]]}
        if rng.random() < 0.4:
            # statement ids as a person would write them (step, step_0, k_1, ...) instead of the builder's numbering: an id
            # of the second method may have to be renamed to a spelling that is the OLD id of another of its statements
            c["relabel"] = rng.randint(1, 10 ** 6)
            c["tag"] = "hand-written-ids"
        yield c


def build_dag(ops, relabel=None):
    import c02
    from dagrt.language import DAGCode
    stmts, fresh, failed = c02.run_builder(ops)
    if relabel is not None and len(stmts) <= len(ID_POOL) - 6:
        import random
        seed, role = relabel
        bases = random.Random(seed).sample(["step", "k", "s", "x", "stage", "r"], 3)
        rr = random.Random(seed * 2 + (role == "B"))
        new = {}
        if role == "A":
            # the first method owns the plain spellings, and leaves their `_0` forms free
            for b, st in zip(bases, rr.sample(list(stmts), min(len(stmts), len(bases)))):
                new[st.id] = b
            avoid = {b + "_0" for b in bases}
        else:
            # the second method has statements spelled X that depend on statements spelled X_0 (X will be renamed X_0)
            edges = [(st.id, d) for st in stmts for d in sorted(st.depends_on)]
            rr.shuffle(edges)
            for b in bases:
                for sid_, d in edges:
                    if sid_ not in new and d not in new and sid_ != d:
                        new[sid_], new[d] = b, b + "_0"
                        break
            avoid = set()
        rest = [i for i in ID_POOL if i not in set(new.values()) | avoid]
        for st, i in zip([st for st in sorted(stmts, key=lambda st: st.id) if st.id not in new], rr.sample(rest, len(stmts) - len(new))):
            new[st.id] = i
        # one constructor call per statement, id and dependencies together
        stmts = [st.copy(id=new[st.id], depends_on=frozenset(new[d] for d in st.depends_on)) for st in stmts]
        rr.shuffle(stmts)
    # run_builder keeps the CodeBuilder internal: rebuild the phase from its statements
    from dagrt.language import ExecutionPhase
    return DAGCode({"p": ExecutionPhase("p", "p", frozenset(stmts))}, "p")


PREDS = {"default": None, "all": (lambda n: True), "none": (lambda n: False)}


def fstmt_js(st):
    return {"id": st.id, "deps": sorted(st.depends_on), "stmt": sc.stmt_js(st)}


_CACHE = {}


def real_fuse(case):
    """one construction per case: the statement sets are hashed by object identity, so their iteration
    order is only reproducible on the SAME objects"""
    import json
    from dagrt.transform import fuse_two_dags
    key = json.dumps([case["A"], case["B"], case["pred"], case.get("relabel")], sort_keys=True)
    if key not in _CACHE:
        if len(_CACHE) > 20000:
            _CACHE.clear()
        rl = case.get("relabel")
        da, db = build_dag(case["A"], rl and (rl, "A")), build_dag(case["B"], rl and (rl, "B"))
        fused = fuse_two_dags(da, db, should_disambiguate_name=PREDS[case["pred"]])
        _CACHE[key] = (da, db, fused)
    return _CACHE[key]


def impl(case):
    da, db, fused = real_fuse(case)
    stmts = fused.phases["p"].statements
    return {"ok": [fstmt_js(s) for s in stmts]}


def model_input(case):
    from pymbolic.imperative.analysis import get_all_used_identifiers
    da, db, _fused = real_fuse(case)
    sa, sb = da.phases["p"].statements, db.phases["p"].statements
    clash = list(get_all_used_identifiers(sa) & get_all_used_identifiers(sb))
    return {"op": "C16.fuse", "A": [fstmt_js(s) for s in sa], "B": [fstmt_js(s) for s in sb], "clash": clash,
            "pred": case["pred"]}


def is_state(n):
    return n in ("<t>", "<dt>") or any(n.startswith(p) for p in ("<state>", "<p>", "<ret_time_id>", "<ret_time>", "<ret_state>"))


def names_of(stmts):
    out = set()
    for s in stmts:
        out |= set(s.get_read_variables()) | set(s.get_written_variables())
        for l in getattr(s, "loops", []):
            out.add(l[0])
    return out


def run_interp(dag, store, steps=1):
    from dagrt.exec_numpy import NumpyInterpreter
    it = NumpyInterpreter(dag, dict(sc.USER_FUNCS))
    sc.patch_builtins(it.functions)
    it.set_up(t_start=1, dt_start=2, context={})
    for k, v in store:
        it.context[k] = v
    events = []
    for e in it.run(max_steps=steps):
        if type(e).__name__ == "StateComputed":
            events.append((e.component_id, sc.val_js(e.state_component)))
    return {k: sc.val_js(v) for k, v in it.context.items()}, events


def oracle(case, out):
    da, db, fused = real_fuse(case)
    sa, sb = list(da.phases["p"].statements), list(db.phases["p"].statements)
    sf = list(fused.phases["p"].statements)
    ids = [s.id for s in sf]
    if len(set(ids)) != len(ids):
        return {"what": f"fused statement ids are not unique: {sorted(ids)}", "sig": "ids"}
    if len(sf) != len(sa) + len(sb):
        return {"what": "fused phase does not contain the statements of both methods", "sig": "count"}
    part_a, part_b = sf[:len(sa)], sf[len(sa):]
    ida, idb = {s.id for s in part_a}, {s.id for s in part_b}
    for s in part_a:
        if not set(s.depends_on) <= ida:
            return {"what": f"cross edge from first method's {s.id}: {sorted(s.depends_on)}", "sig": "cross-edge"}
    for s in part_b:
        if not set(s.depends_on) <= idb:
            return {"what": f"cross edge from second method's {s.id}: {sorted(s.depends_on)}", "sig": "cross-edge"}
    # isomorphism of the second part: same statement order as the iteration of sb
    idmap = {o.id: n.id for o, n in zip(sb, part_b)}
    for o, n in zip(sb, part_b):
        if {idmap[d] for d in o.depends_on} != set(n.depends_on):
            return {"what": f"dependencies of {o.id} -> {n.id} not preserved", "sig": "deps"}
    na, nb = names_of(part_a), names_of(part_b)
    if case["pred"] == "default":
        shared = {n for n in na & nb if not is_state(n)}
        if shared:
            return {"what": f"per-step names shared by the two fused methods: {sorted(shared)}", "sig": "temps-shared"}
    if case["pred"] in ("default", "none"):
        lost = {n for n in names_of(sb) if is_state(n) and n not in nb}
        if lost:
            return {"what": f"persistent names of the second method were renamed: {sorted(lost)}", "sig": "persistent-renamed"}
    # "renamed exactly as the caller's predicate asks": a name both methods use is kept apart iff the predicate says so
    if case["pred"] in ("all", "none"):
        clash = names_of(sa) & names_of(sb)
        for n in sorted(clash):
            renamed = n not in nb
            if case["pred"] == "all" and not renamed:
                return {"what": f"the predicate asks for every shared name to be kept apart, but '{n}' is still used by the "
                                f"second method in the fused phase", "sig": "predicate-ignored"}
            if case["pred"] == "none" and renamed:
                return {"what": f"the predicate asks for no renaming, but '{n}' of the second method was renamed", "sig": "predicate-ignored"}
    if case["pred"] != "default":
        return None
    # behaviour: each method's persistent results equal its solo run
    try:
        ra, ea = run_interp(da, case["store"])
        rb, eb = run_interp(db, case["store"])
        rf, ef = run_interp(fused, case["store"])
    except sc.Inexact:
        return None
    except Exception as e:
        return {"what": f"running fused/separate methods raised {type(e).__name__}: {e}"[:200], "sig": "run-error"}
    for k in ("<state>y", "<p>k"):
        if rf.get(k) != ra.get(k):
            return {"what": f"fused run gives {k}={rf.get(k)}, first method alone {ra.get(k)}", "sig": "value"}
    for k in ("<state>z", "<p>m"):
        if rf.get(k) != rb.get(k):
            return {"what": f"fused run gives {k}={rf.get(k)}, second method alone {rb.get(k)}", "sig": "value"}
    if sorted(ef) != sorted(ea + eb):
        return {"what": f"yielded states differ: fused {ef}, separate {ea + eb}", "sig": "events"}
    return None


def nontrivial(case, out):
    ids = " ".join(str(s) for s in out.get("ok", []))
    return "_0" in ids
