"""C12 — generated Fortran never leaks, double-frees or uses freed user-type storage."""
import concurrent.futures
import json
import re

import fortran_common as fc

ID = "C12"
SOURCES = ["dagrt/codegen/fortran.py", "dagrt/codegen/analysis.py"]
RULE = ("(1) protocol: random sequences of 8-30 operations (allocation check, release, move) on 3-4 pointer variables are "
        "executed by the REAL emitted routines dagrt_alloc_check_y / dagrt_deinit_y and the REAL emitted move sequence, compiled "
        "by gfortran into a generated driver that prints association status, reference counts and aliasing after every operation "
        "-> compared with the Lean model of the protocol; (2) whole methods (oracle): the Fortran-subset methods of C03 with user-type "
        "temporaries, moves between temporaries and persistent variables, overwritten temporaries, last uses inside loops and inside "
        "guarded blocks, failed steps and early phase switches, 1-4 run() calls followed by shutdown, compiled with "
        "-fsanitize=address and run with leak detection: no AddressSanitizer / LeakSanitizer report, nothing on stderr, exit 0. "
        "Non-trivial: protocol traces with a shared block (reference count >= 2) and methods with >= 2 run() calls.")
TRUSTED = ["gfortran 12's AddressSanitizer / LeakSanitizer run time (detect_leaks=1)",
           "where the generator places allocation checks, moves and releases is NOT modelled: whole methods are decided by the sanitizer",
           "the protocol driver calls the emitted module routines directly (they are public module procedures) and spells the move as "
           "emit_user_type_move does (release, =>, =>, increment); a change to that sequence in the generator is caught by (2) only"]
ASSUMPTIONS = list(fc.__dict__.get("ASSUMPTIONS", []))

_results = {}
_module_text = {}


def module_text():
    """a module that contains the two routines (any method with the user type will do)"""
    if "t" not in _module_text:
        m = {"phases": [{"name": "p0", "next": "p0", "prog": [
            ["stmt", ["call", ["v1"], "<func>rhs", [["v", "<t>"], ["v", "<state>y"]], []]],
            ["stmt", ["assign", "<state>y", None, ["+", [["v", "<state>y"], ["*", [["v", "<dt>"], ["v", "v1"]]]]], []]]]}],
            "initial": "p0", "y0": [1, 2, 3], "k0": 0, "t0": 0, "dt": 1, "runs": 1}
        _module_text["t"] = fc.fortran_text(m)
    return _module_text["t"]


def g_ops(rng):
    n = rng.choice([3, 4])
    ops = []
    assoc = [False] * n
    for _ in range(rng.randint(8, 30)):
        r = rng.random()
        live = [i for i in range(n) if assoc[i]]
        if r < 0.35 or not live:
            i = rng.randrange(n)
            ops.append(["alloc", i])
            assoc[i] = True
        elif r < 0.6:
            i = rng.randrange(n)
            ops.append(["deinit", i])
            assoc[i] = False
        else:
            s = rng.choice(live)
            d = rng.choice([i for i in range(n) if i != s])
            ops.append(["move", d, s])
            assoc[d] = True
    return n, ops


def protocol_driver(n, ops):
    decl = "\n  ".join(f"real*8, dimension(:), pointer :: p{i}\n  integer, pointer :: r{i}" for i in range(n))
    null = "\n  ".join(f"nullify(p{i})\n  nullify(r{i})" for i in range(n))
    body = []
    for op in ops:
        if op[0] == "alloc":
            body.append(f"call dagrt_alloc_check_y(p{op[1]}, r{op[1]})")
            body.append(f"p{op[1]} = {op[1] + 1}d0")            # write to the storage we now own
        elif op[0] == "deinit":
            body.append(f"call dagrt_deinit_y(p{op[1]}, r{op[1]})")
        else:
            d, s = op[1], op[2]
            body += [f"call dagrt_deinit_y(p{d}, r{d})", f"p{d} => p{s}", f"r{d} => r{s}", f"r{d} = r{d} + 1"]
        body.append("call show()")
    show = []
    for i in range(n):
        show.append(f"if (associated(p{i})) then\n      write(*,'(A,I2,A,I4,ES12.4)') 'v ', {i}, ' T ', r{i}, sum(p{i})\n    else\n"
                    f"      write(*,'(A,I2,A)') 'v ', {i}, ' F'\n    end if")
    for i in range(n):
        for j in range(i + 1, n):
            show.append(f"if (associated(p{i}) .and. associated(p{j})) then\n      if (associated(p{i}, p{j})) "
                        f"write(*,'(A,I2,I2)') 'a ', {i}, {j}\n    end if")
    fin = "\n  ".join(f"call dagrt_deinit_y(p{i}, r{i})" for i in range(n))
    return f"""program driver
  use meth, only: dagrt_alloc_check_y, dagrt_deinit_y
  implicit none
  {decl}
  {null}
  {chr(10).join('  ' + b for b in body)}
  {fin}
  write(*,'(A)') 'done'
contains
  subroutine show()
    write(*,'(A)') 'op'
    {chr(10).join('    ' + x for x in show)}
  end subroutine
end program
"""


def parse_protocol(out, n):
    trace = []
    cur = None
    for line in out.splitlines():
        p = line.split()
        if not p:
            continue
        if p[0] == "op":
            cur = {"assoc": [False] * n, "rc": [None] * n, "alias": []}
            trace.append(cur)
        elif p[0] == "v" and cur is not None:
            i = int(p[1])
            if p[2] == "T":
                cur["assoc"][i] = True
                cur["rc"][i] = int(p[3])
        elif p[0] == "a" and cur is not None:
            cur["alias"].append([int(p[1]), int(p[2])])
    return trace


def cases(rng, tier):
    out = []
    for _ in range(24 if tier == "quick" else 300):
        n, ops = g_ops(rng)
        out.append({"op": "C12.ops", "tag": "protocol", "n": n, "ops": ops})
    for k in range(40 if tier == "quick" else 500):
        m = fc.g_method(rng, n_phases=2 if k % 2 else None)
        if k % 2:
            add_stage_blocks(rng, m)
        out.append({"op": None, "tag": "method-stages" if k % 2 else "method", "method": m})
    # the same methods generated with the profiling option (counters and timers around every phase; a failed step
    # takes another way out of the phase routine there)
    for c in [c for c in out if c["tag"] in ("method", "method-stages")][::3]:
        out.append({"op": None, "tag": c["tag"] + "+instrumented", "method": dict(c["method"], instrument=True)})
    # …and hand-made: steps that FAIL while a user-type temporary is alive, plain and instrumented
    V, C = fc.V, fc.C
    for instrument in (False, True):
        prog = [["stmt", ["call", ["v1"], "<func>rhs", [V("<t>"), V("<state>y")], []]],
                ["stmt", ["assign", "<p>k", None, ["+", [V("<p>k"), C(1)]], []]],
                ["if", ["cmp", "<", V("<p>k"), C(3)]],
                ["stmt", ["fail"]],
                ["endif"],
                ["stmt", ["assign", "<state>y", None, ["+", [V("<state>y"), ["*", [V("<dt>"), V("v1")]]]], []]],
                ["stmt", ["yield", V("<state>y"), V("<t>"), "final", "y"]]]
        out.append({"op": None, "tag": "failing-step-with-live-temporary" + ("+instrumented" if instrument else ""), "method":
                    {"phases": [{"name": "p0", "next": "p0", "prog": prog}], "initial": "p0", "y0": [1, 2, -1],
                     "exact": False, "k0": 0, "t0": 0, "dt": 0.5, "runs": 4, **({"instrument": True} if instrument else {})}})
    # a call whose first result is a scalar and whose second is a user-type vector, the vector used afterwards
    for order in (0, 1):
        prog = [["stmt", ["call", ["v1"], "<func>rhs", [V("<t>"), V("<state>y")], []]],
                ["stmt", ["assign", "<state>y", None, ["+", [V("<state>y"), ["*", [V("<dt>"), V("v1")]]]], []]],
                ["stmt", ["call", ["lam", "kv"], "<func>rate", [V("<state>y")], []]],
                ["stmt", ["assign", "<state>y", None, ["+", [V("<state>y"), ["*", [V("lam"), V("<dt>"), V("kv")]]]], []]]]
        if order:
            prog.insert(2, ["stmt", ["call", ["lo", "kv"], "<func>split", [V("<state>y")], []]])
        prog.append(["stmt", ["yield", V("<state>y"), V("<t>"), "final", "y"]])
        out.append({"op": None, "tag": "scalar-then-vector-results", "method":
                    {"phases": [{"name": "p0", "next": "p0", "prog": prog}], "initial": "p0", "y0": [1, 2, -1],
                     "exact": False, "k0": 0, "t0": 0, "dt": 0.5, "runs": 3}})
    # a user-type temporary made BEFORE a counted loop and used for the last time INSIDE it (a release at the last
    # use would free it after the first iteration); with and without a later use, 1-3 iterations, two run() calls
    for trips in (1, 2, 3):
        for later in (False, True):
            for inner in ("<builtin>norm_2", "<builtin>len"):
                prog = [["stmt", ["call", ["v1"], "<func>rhs", [V("<t>"), V("<state>y")], []]],
                        ["stmt", ["assign", "<state>y", None, ["+", [V("<state>y"), ["*", [V("<dt>"), V("v1")]]]], []]],
                        ["stmt", ["call", ["v2"], "<func>rhs", [V("<t>"), V("<state>y")], []]],
                        ["stmt", ["call", ["<p>w"], "<builtin>array", [C(3)], []]],
                        ["stmt", ["assign", "<p>w", V("i"), C(0), [["i", C(0), C(3)]]]],
                        ["stmt", ["assign", "<p>w", V("i"), ["+", [["call", inner, [V("v2")], []], V("i")]],
                                  [["i", C(0), C(trips)]]]],
                        ["stmt", ["assign", "<p>k", None, ["+", [V("<p>k"), ["call", "<builtin>norm_2", [V("<p>w")], []]]], []]]]
                if later:
                    prog.append(["stmt", ["assign", "<state>y", None, ["+", [V("<state>y"), ["*", [V("<dt>"), V("v2")]]]], []]])
                prog.append(["stmt", ["yield", V("<state>y"), V("<t>"), "final", "y"]])
                m = {"phases": [{"name": "p0", "next": "p0", "prog": prog}], "initial": "p0", "y0": [1, 2, -1],
                     "exact": False, "k0": 0, "t0": 0, "dt": 0.5, "runs": 2}
                out.append({"op": None, "tag": "last-use-inside-loop", "method": m})
    for tt in ([True, True, 4], [True, False, 3], [False, True, 3], [True, True, 1]):
        out.append({"op": None, "tag": "two-user-types", "two_types": tt})
    precompute(out)
    return out


def add_stage_blocks(rng, m):
    """every phase gets a predictor/corrector block whose calls have EXPRESSION arguments (argument isolation
    then creates statements with the same generated ids - tmp, tmp_0, … - in every phase) and whose user-type
    temporaries have the same names in every phase and are read again afterwards"""
    V, C = fc.V, fc.C
    for ph in m["phases"]:
        block = [
            ["stmt", ["call", ["v1"], "<func>rhs", [V("<t>"), V("<state>y")], []]],
            ["stmt", ["call", ["v2"], "<func>rhs", [["+", [V("<t>"), V("<dt>")]], ["+", [V("<state>y"), ["*", [V("<dt>"), V("v1")]]]]], []]],
            ["stmt", ["call", ["w"], "<func>rhs", [["+", [V("<t>"), ["*", [V("<dt>"), C(2)]]]], ["+", [V("v1"), V("v2")]]], []]],
            ["stmt", ["assign", "<state>y", None, ["+", [V("<state>y"), ["*", [V("<dt>"), V("v2")]]] +
                                                   rng.sample([V("v1"), V("w")], rng.randint(0, 2))], []]]]
        # the phases must differ in WHERE a temporary is used last: trailing reads in some phases only
        for v in ("v1", "v2", "w"):
            if rng.random() < 0.4:
                block.append(["stmt", ["assign", "<state>y", None, ["+", [V("<state>y"), V(v)]], []]])
        if rng.random() < 0.3:
            block.insert(3, ["stmt", ["assign", "v1", None, V("w"), []]])
        pos = 3 if ph["name"] == "p0" else 0
        ph["prog"][pos:pos] = block


def two_type_bundle(with_field, with_tracer, nruns):
    """a method over TWO user types of different shape - a structure with a pointer member and a flat array - with the
    module and a driver for it (the per-type routines dagrt_alloc_check_<type> / dagrt_deinit_<type> are generated in
    a loop over the user types: one type's routine must not be built from another type's layout)"""
    from pymbolic import var
    import dagrt.codegen.fortran as f
    import dagrt.language as lang
    from dagrt.function_registry import base_function_registry, register_ode_rhs
    from dagrt.language import CodeBuilder
    n, m_, dt = 5, 3, 0.125
    freg = base_function_registry
    utm = {}
    if with_field:
        freg = register_ode_rhs(freg, "field", identifier="<func>f", input_names=("y",))
        freg = freg.register_codegen("<func>f", "fortran", f.CallCode("""
                    ${result}%v = -0.5d0*${y}%v
                    """))
        utm["field"] = f.StructureType("cell", (("v", f.PointerType(f.ArrayType((n,), f.BuiltinType("real*8")))),))
    if with_tracer:
        freg = register_ode_rhs(freg, "tracer", identifier="<func>g", input_names=("z",))
        freg = freg.register_codegen("<func>g", "fortran", f.CallCode("""
                    ${result} = -0.25d0*${z}
                    """))
        utm["tracer"] = f.ArrayType((m_,), f.BuiltinType("real*8"))
    with CodeBuilder(name="main") as cb:
        if with_field:
            cb("k1", "<func>f(<t>, <state>y)")
            cb("y1", "<state>y + <dt>*k1")
            cb("k2", "<func>f(<t> + <dt>, y1)")
            cb("<state>y", "<state>y + 0.5*<dt>*(k1 + k2)")
        if with_tracer:
            cb("l1", "<func>g(<t>, <state>z)")
            cb("<state>z", "<state>z + <dt>*l1")
        cb("<t>", "<t> + <dt>")
        if with_field:
            cb.yield_state("<state>y", "field", var("<t>"), "final")
        if with_tracer:
            cb.yield_state("<state>z", "tracer", var("<t>"), "final")
    code = lang.DAGCode.from_phases_list([cb.as_execution_phase("main")], "main")
    import contextlib
    import io
    with contextlib.redirect_stdout(io.StringIO()):
        text = f.CodeGenerator("meth", function_registry=freg, module_preamble="""
            type cell
              real*8, dimension(:), pointer :: v
            end type
            """, user_type_map=utm)(code)
    init = ", ".join((["state_y=y0"] if with_field else []) + (["state_z=z0"] if with_tracer else []))
    driver = f"""
program drv
  use meth
  implicit none
  type(dagrt_state_type), target :: st
  type(dagrt_state_type), pointer :: sp
  type(cell) :: y0
  real*8, dimension({m_}) :: z0
  integer i
  sp => st
  allocate(y0%v({n}))
  do i = 1, {n}
    y0%v(i) = i
  end do
  do i = 1, {m_}
    z0(i) = 10*i
  end do
  call initialize(dagrt_state=sp, {init}, dagrt_t=0d0, dagrt_dt={dt!r}d0)
  do i = 1, {nruns}
    call run(dagrt_state=sp)
  end do
  call shutdown(dagrt_state=sp)
  deallocate(y0%v)
  write(*,'(A)') 'done'
end program
"""
    return {"text": text, "driver": driver}


def key(case):
    return json.dumps({k: v for k, v in case.items() if k in ("n", "ops", "method", "two_types")}, sort_keys=True)


def gen_one(case):
    try:
        if case.get("two_types") is not None:
            return two_type_bundle(*case["two_types"])
        if case.get("method") is not None:
            text = fc.fortran_text(case["method"])
            return {"text": text, "driver": fc.fortran_driver(text, case["method"])}
        return {"text": module_text(), "driver": protocol_driver(case["n"], case["ops"])}
    except Exception as e:
        return {"gen_error": type(e).__name__ + ": " + str(e)[:200]}


def build_one(g):
    if "driver" not in g:
        return g
    try:
        return fc.compile_and_run(g["text"], g["driver"], asan=True)
    except Exception as e:
        return {"harness": type(e).__name__ + ": " + str(e)[:150]}


def precompute(cases_):
    todo = [c for c in cases_ if key(c) not in _results]
    gens = [gen_one(c) for c in todo]
    with concurrent.futures.ThreadPoolExecutor(max_workers=12) as ex:
        for c, r in zip(todo, ex.map(build_one, gens)):
            _results[key(c)] = r


def result(case):
    k = key(case)
    if k not in _results:
        _results[k] = build_one(gen_one(case))
    return _results[k]


def impl(case):
    r = result(case)
    if "gen_error" in r:
        return {"gen_error": r["gen_error"]}
    if "harness" in r:
        return {"harness_problem": r["harness"]}
    if not r["compiled"]:
        return {"compiled": False, "log": r["compile_log"][-400:]}
    out = {"compiled": True, "rc": r["rc"], "stderr": sanitizer_summary(r["stderr"])}
    if case.get("op") == "C12.ops":
        out["trace"] = parse_protocol(r["stdout"], case["n"])
    return out


def sanitizer_summary(err):
    err = err.strip()
    if not err:
        return ""
    m = re.search(r"(ERROR: (?:Address|Leak)Sanitizer[^\n]*)", err)
    s = re.search(r"(SUMMARY: [^\n]*)", err)
    return ((m.group(1) if m else err[:150]) + (" | " + s.group(1) if s else ""))[:300]


def normalise_pair(case, a, b):
    if case.get("op") != "C12.ops" or not isinstance(a, dict) or "trace" not in a:
        return None, None
    return a["trace"], (b.get("trace") if isinstance(b, dict) else b)


def oracle(case, out):
    if not isinstance(out, dict):
        return None
    if "harness_error" in out or "harness_problem" in out:
        return {"what": "harness could not run the Fortran pipeline: " + str(out.get("harness_error") or out.get("harness_problem")),
                "sig": "harness"}
    if "gen_error" in out:
        return {"what": "the Fortran generator rejects the method: " + out["gen_error"], "sig": "generator-raises"}
    if not out.get("compiled"):
        return {"what": "does not compile: " + out.get("log", "")[-300:], "sig": "does-not-compile"}
    if out.get("stderr") or out.get("rc") != 0:
        kind = "leak" if "Leak" in out.get("stderr", "") else "memory-error"
        what = "the protocol routines" if case.get("op") else "the generated stepper"
        return {"what": f"{what}: sanitizer / stderr: {out.get('stderr')} (exit {out.get('rc')})", "sig": kind}
    return None


def nontrivial(case, out):
    if case.get("op") == "C12.ops":
        return any((x or 0) >= 2 for st in (out.get("trace") or []) for x in st["rc"])
    if case.get("two_types") is not None:
        return case["two_types"][2] >= 2
    return case["method"]["runs"] >= 2


def shrink(case, still_fails):
    if case.get("two_types") is not None:
        return case
    if case.get("op") == "C12.ops":
        cur = case
        changed = True
        while changed:
            changed = False
            for i in range(len(cur["ops"]) - 1, -1, -1):
                c2 = dict(cur, ops=cur["ops"][:i] + cur["ops"][i + 1:])
                if still_fails(c2):
                    cur = c2
                    changed = True
                    break
        return cur
    import c03
    return c03.shrink(case, still_fails)
