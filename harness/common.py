"""Shared machinery of the /verif checks (see DESIGN.md section 5).

A property module `harness/cXX.py` provides

    ID            "C06"
    SOURCES       list of /repo-relative files the property is anchored in
    RULE          text: how cases are generated, what makes one non-trivial
    TRUSTED       list of strings (per-property additions to the trusted base)
    cases(rng, tier)      -> iterable of JSON-serialisable case dicts; every case
                             has "op" (driver operation) and may have "tag"
    impl(case)            -> canonical JSON-serialisable output of the REAL code
    oracle(case, out)     -> None if the property holds on this case for the real
                             code, else a dict {"what": ..., ...} (failing input)
    nontrivial(case, out) -> bool
  optional
    pre_build(ctx)        -> write Generated/*.lean from the real code
    extra_targets         -> additional lake targets
    normalise(out)        -> canonical form applied to both streams before diff
    normalise_pair(case, impl_out, model_out) -> (a, b) compared instead (e.g. evaluations the model marks "not modelled")
    shrink(case, still_fails) -> smaller failing case
    search(rng, budget)   -> iterable of extra cases for the failing-input search
    exhaustive(tier)      -> bool: the enumerated part of the case space was complete
    extra_checks(ctx)     -> list of (name, ok, detail, failing_case_or_None)
"""
from __future__ import annotations

import fcntl
import hashlib
import importlib
import json
import os
import random
import re
import subprocess
import sys
import time
import traceback

VERIF = os.path.dirname(os.path.dirname(os.path.abspath(__file__)))
LEAN = os.path.join(VERIF, "lean")
REPO = os.environ.get("DAGRT_REPO", "/repo")
DRIVER = os.path.join(LEAN, ".lake", "build", "bin", "driver")
ALLOWED_AXIOMS = {"propext", "Classical.choice", "Quot.sound"}
FORBIDDEN = re.compile(
    r"\bsorry\b|\badmit\b|^\s*axiom\s|native_decide|bv_decide|implemented_by|\bunsafe\s|maxHeartbeats\s+0\b")

BASE_TRUSTED = [
    "Lean 4.33 kernel (thorough tier: re-checked by leanchecker)",
    "axioms allowed: propext, Classical.choice, Quot.sound (audited with #print axioms on every run); no native_decide, no bv_decide, no own axioms, no sorry",
    "statements of the theorems in lean/Dagrt/Props (read them) and fidelity of the hand-written model, CHECKED differentially against /repo's working tree on every run to the extent of the generators (distribution below), not assumed",
    "the harness: generators, canonicalisers, JSON line protocol, the driver's parser",
    "CPython, pymbolic, pytools, numpy as far as the anchored code reaches into them (modelled, validated by the correspondence run, not verified)",
]


def sha256_file(path):
    try:
        with open(path, "rb") as f:
            return hashlib.sha256(f.read()).hexdigest()
    except OSError:
        return None


# --------------------------------------------------------------------------
# Lean side

class LakeLock:
    def __enter__(self):
        os.makedirs(os.path.join(LEAN, ".lake"), exist_ok=True)
        self.f = open(os.path.join(LEAN, ".lake", "verif.lock"), "w")
        fcntl.flock(self.f, fcntl.LOCK_EX)
        return self

    def __exit__(self, *a):
        fcntl.flock(self.f, fcntl.LOCK_UN)
        self.f.close()


def lean_build(targets, timeout=1500):
    """lake build under a lock; returns (ok, log)"""
    with LakeLock():
        try:
            r = subprocess.run(["lake", "build"] + list(targets), cwd=LEAN,
                               capture_output=True, text=True, timeout=timeout)
        except subprocess.TimeoutExpired:
            return False, "lake build timed out"
    return r.returncode == 0, (r.stdout + r.stderr)[-6000:]


def props_file(pid):
    return os.path.join(LEAN, "Dagrt", "Props", pid + ".lean")


def strip_comments(src):
    # remove /- ... -/ (nested not handled beyond one level) and -- comments
    out = []
    depth = 0
    i = 0
    n = len(src)
    while i < n:
        if src.startswith("/-", i):
            depth += 1
            i += 2
        elif src.startswith("-/", i) and depth > 0:
            depth -= 1
            i += 2
        elif depth > 0:
            if src[i] == "\n":
                out.append("\n")
            i += 1
        elif src.startswith("--", i):
            while i < n and src[i] != "\n":
                i += 1
        else:
            out.append(src[i])
            i += 1
    return "".join(out)


def theorems_of(pid):
    """fully qualified names of the theorems stated in Props/<pid>.lean"""
    src = strip_comments(open(props_file(pid)).read())
    ns = []
    names = []
    for line in src.splitlines():
        m = re.match(r"\s*namespace\s+(\S+)", line)
        if m:
            ns.append(m.group(1))
            continue
        m = re.match(r"\s*end\s+(\S+)\s*$", line)
        if m and ns and ns[-1] == m.group(1):
            ns.pop()
            continue
        m = re.match(r"\s*(?:@\[[^\]]*\]\s*)?(?:private\s+|protected\s+)?theorem\s+([^\s:({\[]+)", line)
        if m:
            names.append(".".join(ns + [m.group(1)]))
    return names


def lean_deps(pid):
    """transitive closure of project-local imports of Props/<pid>.lean"""
    seen = set()
    todo = ["Dagrt.Props." + pid]
    while todo:
        m = todo.pop()
        if m in seen:
            continue
        path = os.path.join(LEAN, *m.split(".")) + ".lean"
        if not os.path.exists(path):
            continue
        seen.add(m)
        for line in open(path):
            mm = re.match(r"\s*import\s+(Dagrt\.\S+)", line)
            if mm:
                todo.append(mm.group(1))
    return sorted(seen)


def forbidden_tokens(pid):
    hits = []
    for m in lean_deps(pid):
        path = os.path.join(LEAN, *m.split(".")) + ".lean"
        src = strip_comments(open(path).read())
        for k, line in enumerate(src.splitlines(), 1):
            if FORBIDDEN.search(line):
                hits.append(f"{m}:{k}: {line.strip()[:100]}")
    return hits


def audit(pid, names):
    """#print axioms for every theorem; returns dict name -> list of axioms or None (missing)"""
    d = os.path.join(LEAN, ".lake", "audit")
    os.makedirs(d, exist_ok=True)
    path = os.path.join(d, f"Audit_{pid}_{os.getpid()}.lean")
    with open(path, "w") as f:
        f.write(f"import Dagrt.Props.{pid}\n")
        for n in names:
            f.write(f"#print axioms {n}\n")
    try:
        r = subprocess.run(["lake", "env", "lean", path], cwd=LEAN,
                           capture_output=True, text=True, timeout=600)
    finally:
        try:
            os.unlink(path)
        except OSError:
            pass
    text = (r.stdout + "\n" + r.stderr).replace("\n  ", " ").replace("\n ", " ")
    res = {n: None for n in names}
    for m in re.finditer(r"'([^']+)' depends on axioms: \[([^\]]*)\]", text):
        res[m.group(1)] = [a.strip() for a in m.group(2).replace("\n", " ").split(",") if a.strip()]
    for m in re.finditer(r"'([^']+)' does not depend on any axioms", text):
        res[m.group(1)] = []
    return res, text[-3000:]


def leanchecker(pid, timeout=1500):
    try:
        r = subprocess.run(["lake", "env", "leanchecker", "Dagrt.Props." + pid], cwd=LEAN,
                           capture_output=True, text=True, timeout=timeout)
        return r.returncode == 0, (r.stdout + r.stderr)[-2000:]
    except subprocess.TimeoutExpired:
        return False, "leanchecker timed out"


def run_driver(objs, timeout=1200):
    """send one JSON object per line to the compiled model driver; list of parsed answers"""
    if not objs:
        return []
    data = "".join(json.dumps(o, separators=(",", ":")) + "\n" for o in objs)
    r = subprocess.run([DRIVER], input=data, capture_output=True, text=True, timeout=timeout)
    lines = r.stdout.split("\n")
    if lines and lines[-1] == "":
        lines.pop()
    out = []
    for ln in lines:
        try:
            out.append(json.loads(ln))
        except ValueError:
            out.append({"bad": "unparsable driver line", "line": ln[:200]})
    while len(out) < len(objs):
        out.append({"bad": "driver produced no answer", "stderr": r.stderr[-300:]})
    return out


# --------------------------------------------------------------------------
# known findings, replays, evidence

def load_known():
    p = os.path.join(VERIF, "KNOWN_FINDINGS.json")
    try:
        return json.load(open(p))
    except OSError:
        return []


def repo_head():
    try:
        r = subprocess.run(["git", "-C", REPO, "rev-parse", "--short", "HEAD"], capture_output=True, text=True)
        d = subprocess.run(["git", "-C", REPO, "status", "--porcelain"], capture_output=True, text=True)
        return r.stdout.strip(), [l[3:] for l in d.stdout.splitlines() if l and not l.startswith("??")]
    except OSError:
        return "?", []


def write_replay(pid, kind, payload):
    os.makedirs(os.path.join(VERIF, "replays"), exist_ok=True)
    blob = json.dumps(payload, sort_keys=True, default=str)
    h = hashlib.sha1(blob.encode()).hexdigest()[:12]
    path = os.path.join(VERIF, "replays", f"{pid}-{h}.json")
    head, dirty = repo_head()
    payload = dict(payload)
    payload.update(property=pid, kind=kind, repo_head=head, dirty_files=dirty,
                   replay_cmd=f"./check {pid} --replay replays/{pid}-{h}.json")
    with open(path, "w") as f:
        json.dump(payload, f, indent=1, default=str)
    return os.path.relpath(path, VERIF)


def canon(o):
    return json.loads(json.dumps(o, sort_keys=True, default=str))


class Ctx:
    def __init__(self, P, tier, seed):
        self.P = P
        self.tier = tier
        self.seed = seed
        self.rng = random.Random(seed * 1000003 + int(hashlib.sha1(P.ID.encode()).hexdigest()[:6], 16))
        self.notes = []
        self.hist = {}

    def count(self, key, n=1):
        self.hist[key] = self.hist.get(key, 0) + n


def safe_impl(P, case):
    try:
        return canon(P.impl(case))
    except Exception as e:  # the harness could not even call the anchored code
        return {"harness_error": type(e).__name__, "msg": str(e)[:200],
                "tb": traceback.format_exc()[-600:]}


def safe_oracle(P, case, out):
    try:
        return P.oracle(case, out)
    except Exception as e:
        return {"what": "oracle could not evaluate the property on the real code: "
                + type(e).__name__ + ": " + str(e)[:200], "oracle_error": True,
                "tb": traceback.format_exc()[-600:]}


def match_known(pid, case, fail, known):
    for k in known:
        if k.get("property") != pid or k.get("status") != "known":
            continue
        fn = MATCHERS.get(k["matcher"]["name"])
        if fn is None:
            continue
        try:
            if fn(case, fail, **k["matcher"].get("params", {})):
                return k
        except Exception:
            continue
    return None


MATCHERS = {}


def matcher(fn):
    MATCHERS[fn.__name__] = fn
    return fn


def load_corpus(pid):
    p = os.path.join(VERIF, "harness", "corpus", pid + ".jsonl")
    out = []
    if os.path.exists(p):
        for line in open(p):
            line = line.strip()
            if line and not line.startswith("#"):
                out.append(json.loads(line))
    return out


def default_shrink(P, case, still_fails):
    fn = getattr(P, "shrink", None)
    if fn is None:
        return case
    try:
        return fn(case, still_fails)
    except Exception:
        return case


def run_check(P, tier, seed, replay=None):
    t0 = time.time()
    pid = P.ID
    ctx = Ctx(P, tier, seed)
    P.ctx = ctx          # modules may count what their oracle covered: P.ctx.count(key)
    lines = []      # VIOLATION / KNOWN-FINDING lines
    problems = []   # broken proof obligations / correspondence streams (not yet violations)

    # 0. generated tables from the real code
    pre = getattr(P, "pre_build", None)
    if pre is not None:
        try:
            pre(ctx)
        except Exception as e:
            problems.append({"stream": "generated-tables", "detail": f"{type(e).__name__}: {e}"[:300]})

    # 1. proofs
    targets = ["Dagrt.Props." + pid, "driver"] + list(getattr(P, "extra_targets", []))
    ok, log = lean_build(targets)
    names = theorems_of(pid)
    discharged = 0
    axioms = {}
    if not ok:
        problems.append({"stream": "lake build " + " ".join(targets), "detail": log[-1500:]})
        # is the driver still usable?
        ok_driver, _ = lean_build(["driver"])
    else:
        ok_driver = True
        axioms, audit_log = audit(pid, names)
        for n in names:
            ax = axioms.get(n)
            if ax is None:
                problems.append({"stream": "audit", "theorem": n, "detail": "theorem not found by #print axioms"})
            elif not set(ax) <= ALLOWED_AXIOMS:
                problems.append({"stream": "audit", "theorem": n, "detail": f"axioms {ax}"})
            else:
                discharged += 1
        bad = forbidden_tokens(pid)
        if bad:
            problems.append({"stream": "source-grep", "detail": "; ".join(bad[:5])})
            discharged = 0
        if tier == "thorough" and os.environ.get("VERIF_NO_LEANCHECKER") != "1":
            lc_ok, lc_log = leanchecker(pid)
            ctx.notes.append("leanchecker: " + ("ok" if lc_ok else "FAILED " + lc_log[-300:]))
            if not lc_ok:
                problems.append({"stream": "leanchecker", "detail": lc_log[-800:]})

    # 2. cases: corpus first, then generated
    if replay is not None:
        rp = json.load(open(replay))
        cases = [rp["case"]] if "case" in rp else []
    else:
        cases = load_corpus(pid)
        n_corpus = len(cases)
        try:
            for c in P.cases(ctx.rng, tier):
                cases.append(c)
        except Exception as e:
            problems.append({"stream": "case-generation", "detail": traceback.format_exc()[-800:]})
    cases = [canon(c) for c in cases]

    # 3. implementation stream, model stream, diff
    impl_outs = [safe_impl(P, c) for c in cases]
    norm = getattr(P, "normalise", lambda x: x)
    model_inputs = [c for c in cases if c.get("op")]
    model_outs_by_idx = {}
    if ok_driver:
        mi = []
        mi_err = {}
        dropped_keys = {id(c) for c, o in zip(cases, impl_outs) if isinstance(o, dict) and "dropped" in o}
        for k, c in enumerate(model_inputs):
            if id(c) in dropped_keys:
                # the harness declined to run the real code on this case (reason counted below): not compared
                mi.append({"op": "none"})
                continue
            try:
                mi.append(getattr(P, "model_input", lambda c: c)(c))
            except Exception as e:
                mi.append({"op": "none"})
                mi_err[k] = {"bad": f"model_input failed: {type(e).__name__}: {e}"[:200]}
        try:
            mo = run_driver(mi)
        except Exception as e:
            mo = [{"bad": f"driver failed: {e}"}] * len(model_inputs)
        for k, v in mi_err.items():
            mo[k] = v
        k = 0
        for i, c in enumerate(cases):
            if c.get("op"):
                model_outs_by_idx[i] = mo[k]
                k += 1
    else:
        for i, c in enumerate(cases):
            if c.get("op"):
                model_outs_by_idx[i] = {"bad": "driver does not build"}
    diffs = []
    def dropped(i):
        return isinstance(impl_outs[i], dict) and "dropped" in impl_outs[i]
    for i, c in enumerate(cases):
        if dropped(i):
            ctx.count("dropped:" + str(impl_outs[i]["dropped"])[:40])
            continue
        if i in model_outs_by_idx:
            a = norm(impl_outs[i])
            b = norm(canon(model_outs_by_idx[i]))
            if hasattr(P, "normalise_pair"):
                a, b = P.normalise_pair(c, a, b)
            if a != b:
                diffs.append(i)
    if diffs:
        i = diffs[0]
        problems.append({"stream": "correspondence", "n_diffs": len(diffs), "case": cases[i],
                         "impl_output": impl_outs[i], "model_output": model_outs_by_idx[i]})

    # 4. oracle = the property itself, evaluated on the real code's behaviour
    known = load_known()
    fails = []
    for i, c in enumerate(cases):
        if dropped(i):
            continue
        f = safe_oracle(P, c, impl_outs[i])
        if f is not None:
            fails.append((i, f))
    extra = getattr(P, "extra_checks", None)
    extra_results = []
    if extra is not None and replay is None:
        try:
            extra_results = list(extra(ctx))
        except Exception as e:
            extra_results = [("extra_checks", False, traceback.format_exc()[-800:], None)]
        for name, good, detail, fcase in extra_results:
            if not good:
                if fcase is not None:
                    cases.append(canon(fcase))
                    impl_outs.append({"extra": name})
                    fails.append((len(cases) - 1, {"what": f"{name}: {detail}"[:500]}))
                else:
                    problems.append({"stream": name, "detail": str(detail)[:800]})

    # 5. if a proof obligation / the correspondence broke and nothing failed so far: search harder
    searched = 0
    unlisted = [(i, f) for (i, f) in fails if match_known(pid, cases[i], f, known) is None]
    if problems and not unlisted and replay is None:
        srch = getattr(P, "search", None)
        budget = 4000 if tier == "quick" else 40000
        gen = srch(ctx.rng, budget) if srch is not None else P.cases(random.Random(seed + 7919), "thorough")
        t_s = time.time()
        try:
            for c in gen:
                c = canon(c)
                o = safe_impl(P, c)
                f = safe_oracle(P, c, o)
                searched += 1
                if f is not None and match_known(pid, c, f, known) is None:
                    cases.append(c)
                    impl_outs.append(o)
                    fails.append((len(cases) - 1, f))
                    unlisted.append((len(cases) - 1, f))
                    break
                if searched >= budget or time.time() - t_s > (120 if tier == "quick" else 900):
                    break
        except Exception:
            ctx.notes.append("search aborted: " + traceback.format_exc()[-300:])

    # 6. classify, print
    seen_known = {}
    violations = 0
    reported = set()
    for i, f in fails:
        k = match_known(pid, cases[i], f, known)
        if k is not None:
            seen_known.setdefault(k["key"], (k, cases[i]))
            continue
        sig = f.get("sig") or f.get("what", "")[:60]
        if sig in reported:
            continue
        reported.add(sig)
        case = cases[i]

        def still_fails(c2, _f=f):
            c2 = canon(c2)
            o2 = safe_impl(P, c2)
            f2 = safe_oracle(P, c2, o2)
            return f2 is not None and not f2.get("oracle_error") and match_known(pid, c2, f2, known) is None
        if not f.get("oracle_error"):
            small = default_shrink(P, case, still_fails)
        else:
            small = case
        small = canon(small)
        o2 = safe_impl(P, small)
        f2 = safe_oracle(P, small, o2) or f
        m2 = model_outs_by_idx.get(i)
        if small != case and small.get("op") and ok_driver:
            try:
                m2 = run_driver([getattr(P, "model_input", lambda c: c)(small)])[0]
            except Exception:
                m2 = None
        path = write_replay(pid, "failing-input", {
            "case": small, "original_case": case if small != case else None,
            "impl_output": o2, "model_output": m2,
            "oracle": f2, "seed": seed, "tier": tier,
            "broken": problems[:3]})
        lines.append(f"VIOLATION property={pid} replay={path}")
        violations += 1
        if violations >= 3:
            break
    if problems and violations == 0:
        path = write_replay(pid, "proof-or-correspondence-break", {
            "theorem_or_stream": [p.get("theorem") or p.get("stream") for p in problems],
            "problems": problems[:5], "searched_cases": searched + len(cases),
            "seed": seed, "tier": tier,
            "case": problems[0].get("case")})
        lines.append(f"VIOLATION property={pid} replay={path} no-failing-input-found")
        violations += 1
    for key, (k, c) in sorted(seen_known.items()):
        print(f"KNOWN-FINDING: property={pid} {k['what']} [key={key}]")
    if replay is None:
        for k in known:
            if k.get("property") == pid and k.get("status") == "known" and k["key"] not in seen_known:
                ctx.notes.append(f"known finding {k['key']} was not reproduced in this run")
    for ln in lines:
        print(ln)

    # 7. evidence
    nontriv = set()
    for i, c in enumerate(cases):
        try:
            if P.nontrivial(c, impl_outs[i]):
                nontriv.add(json.dumps(c, sort_keys=True))
        except Exception:
            pass
        ctx.count("tag:" + str(c.get("tag", c.get("op", "?"))))
    samples = []
    step = max(1, len(cases) // 4)
    for i in range(0, len(cases), step):
        samples.append({"case": cases[i], "impl": impl_outs[i], "model": model_outs_by_idx.get(i)})
        if len(samples) >= 4:
            break
    srcs = {s: sha256_file(os.path.join(REPO, s)) for s in getattr(P, "SOURCES", [])}
    exhaustive = bool(getattr(P, "exhaustive", lambda t: False)(tier))
    ev = {
        "property_id": pid, "tier": tier, "seed": seed, "level": "proof",
        "coverage": {
            "obligations": max(len(names), 1), "discharged": discharged,
            "checker_cmd": f"cd lean && lake build Dagrt.Props.{pid} && lake env lean <#print axioms of every theorem of Props/{pid}.lean>"
                           + (" && lake env leanchecker Dagrt.Props." + pid if tier == "thorough" else ""),
            "trusted_base": BASE_TRUSTED + list(getattr(P, "TRUSTED", [])),
            "theorems": {n: axioms.get(n) for n in names},
            "evaluations": len(cases) + searched,
            "distinct_nontrivial": len(nontriv),
            "rule": P.RULE,
            "samples": samples if samples else [{"note": "no cases"}],
            "exhaustive": exhaustive,
            "correspondence": {"cases_compared": len(model_outs_by_idx), "diffs": len(diffs)},
            "oracle": {"cases_checked": len(cases), "failing": len(fails),
                       "known_findings_hit": sorted(seen_known)},
            "input_distribution": dict(sorted(ctx.hist.items())),
            "source_sha256": srcs,
            "repo_head": repo_head()[0],
            "extra_checks": [{"name": n, "ok": g, "detail": str(d)[:300]} for (n, g, d, _c) in extra_results],
            "notes": ctx.notes,
            "problems": [{k: (v if k != "detail" else str(v)[-400:]) for k, v in p.items() if k in ("stream", "theorem", "detail", "n_diffs")} for p in problems[:5]],
        },
        "assumptions": list(getattr(P, "ASSUMPTIONS", [])),
        "wall_s": round(time.time() - t0, 2),
        "violations": violations,
    }
    if replay is None:
        os.makedirs(os.path.join(VERIF, "evidence"), exist_ok=True)
        with open(os.path.join(VERIF, "evidence", pid + ".json"), "w") as f:
            json.dump(ev, f, indent=1, default=str)
    print(f"[{pid}] tier={tier} seed={seed} theorems={discharged}/{len(names)} cases={len(cases)} "
          f"diffs={len(diffs)} oracle_failures={len(fails)} known={len(seen_known)} "
          f"violations={violations} wall={ev['wall_s']}s")
    return 1 if violations else 0


def main(argv):
    import argparse
    ap = argparse.ArgumentParser()
    ap.add_argument("pid")
    ap.add_argument("--tier", default=os.environ.get("VERIF_TIER", "quick"))
    ap.add_argument("--replay", default=None)
    a = ap.parse_args(argv)
    seed = int(os.environ.get("VERIF_SEED", "0") or 0)
    sys.path.insert(0, os.path.join(VERIF, "harness"))
    P = importlib.import_module(a.pid.lower())
    try:
        return run_check(P, a.tier if a.tier in ("quick", "thorough") else "quick", seed, a.replay)
    except Exception:
        traceback.print_exc()
        return 2


if __name__ == "__main__":
    sys.exit(main(sys.argv[1:]))
