#!/bin/bash
# usage: tools/seed_store.sh <PROP> <K> "<needs>" "<caught-by / result>"
P=$1; K=$2; NEEDS=$3; RES=$4
D=/verif/seeded/$P-$K; mkdir -p $D
cp /tmp/seed-out/$P/patch$K.diff $D/patch.diff
cp /tmp/seed-out/$P/demo$K.py $D/demo.py
cp /tmp/seed-out/$P/notes$K.md $D/notes.md 2>/dev/null
python3 - "$P" "$K" "$NEEDS" "$RES" <<'PY'
import json,sys
P,K,NEEDS,RES=sys.argv[1:5]
json.dump({"property":P,"id":f"{P}-{K}","breaks":P,"needs_to_manifest":NEEDS,
 "confirmed":"tools/seed_confirm.sh: demo passes on the clean tree (exit 0), the 116 tests pass with the patch, demo fails with the patch (exit 1)",
 "ran":f"git -C /repo apply seeded/{P}-{K}/patch.diff; ./check {P}; git -C /repo checkout -- .",
 "result":RES, "author":"independent sub-agent given only the property text and a scratch worktree"},
 open(f"/verif/seeded/{P}-{K}/meta.json","w"),indent=1)
PY
