#!/bin/bash
# usage: tools/benign_store.sh <PROP> <TAG> <K> "<what>" "<result>" [<stored-number, default K>]
P=$1; TAG=$2; K=$3; WHAT=$4; RES=$5; N=${6:-$K}
D=/verif/seeded/harmless/$P-$N; mkdir -p $D
cp /tmp/seed-out/$P-$TAG/patch$K.diff $D/patch.diff
cp /tmp/seed-out/$P-$TAG/demo$K.py $D/demo.py
cp /tmp/seed-out/$P-$TAG/notes$K.md $D/notes.md 2>/dev/null
python3 - "$P" "$N" "$WHAT" "$RES" <<'PY'
import json,sys
P,K,WHAT,RES=sys.argv[1:5]
json.dump({"property":P,"id":f"{P}-harmless-{K}","kind":"harmless change: the property still holds","what":WHAT,
 "confirmed":"tools/seed_confirm2.sh: the 116 tests pass with the patch; the author's demo (property checked on concrete inputs) exits 0 with and without it",
 "result":RES, "author":"independent sub-agent given only the property text and a scratch worktree"},
 open(f"/verif/seeded/harmless/{P}-{K}/meta.json","w"),indent=1)
PY
