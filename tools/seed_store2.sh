#!/bin/bash
# usage: tools/seed_store2.sh <PROP> <TAG> <K> <LETTER> "<needs>" "<caught-by / result>"
P=$1; TAG=$2; K=$3; L=$4; NEEDS=$5; RES=$6
D=/verif/seeded/$P-$L; mkdir -p $D
cp /tmp/seed-out/$P-$TAG/patch$K.diff $D/patch.diff
cp /tmp/seed-out/$P-$TAG/demo$K.py $D/demo.py
cp /tmp/seed-out/$P-$TAG/notes$K.md $D/notes.md 2>/dev/null
python3 - "$P" "$L" "$NEEDS" "$RES" <<'PY'
import json,sys,subprocess
P,L,NEEDS,RES=sys.argv[1:5]
head=subprocess.check_output(["git","-C","/repo","log","--oneline","-1"]).decode().split()[0]
json.dump({"property":P,"id":f"{P}-{L}","breaks":P,"needs_to_manifest":NEEDS,
 "confirmed":"tools/seed_confirm2.sh: demo passes on the clean tree (exit 0), the 116 tests pass with the patch, demo fails with the patch (exit 1)",
 "ran":f"git -C /repo apply /verif/seeded/{P}-{L}/patch.diff; ./check {P}; git -C /repo checkout -- .",
 "applies_to":head,
 "result":RES, "author":"independent sub-agent given only the property text and a scratch worktree (round given by the tag of the sub-agent run)"},
 open(f"/verif/seeded/{P}-{L}/meta.json","w"),indent=1)
PY
