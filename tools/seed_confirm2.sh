#!/bin/bash
# usage: tools/seed_confirm2.sh <PROP> <TAG> <K> mutant|benign [check ids...]
# reads /tmp/seed-out/<PROP>-<TAG>/patchK.diff, demoK.py; worktree /tmp/wt-<PROP>-<TAG>
P=$1; TAG=$2; K=$3; MODE=$4; shift 4; CHECKS=${@:-$P}
WT=/tmp/wt-$P-$TAG; SO=/tmp/seed-out/$P-$TAG
want=1; [ "$MODE" = benign ] && want=0
git -C $WT checkout -q -- . ; git -C $WT clean -fdq
cp $SO/demo$K.py $WT/_demo.py
( cd $WT && PYTHONPATH=$WT timeout 600 /venv/bin/python _demo.py >/dev/null 2>&1 ); echo "demo on clean tree: exit $? (want 0)"
git -C $WT apply $SO/patch$K.diff || { echo "PATCH DOES NOT APPLY"; exit 1; }
( cd $WT && PYTHONPATH=$WT /venv/bin/python -m pytest -q -p no:cacheprovider --timeout=900 2>&1 | tail -1 )
( cd $WT && PYTHONPATH=$WT timeout 600 /venv/bin/python _demo.py >/dev/null 2>&1 ); echo "demo with patch: exit $? (want $want)"
git -C $WT checkout -q -- . ; rm -f $WT/_demo.py
# now our checks against /repo with the patch
git -C /repo apply $SO/patch$K.diff || { echo "PATCH DOES NOT APPLY TO /repo"; exit 1; }
for c in $CHECKS; do ( cd /verif && ./check $c 2>&1 | grep -v "^KNOWN-FINDING" | tail -4; echo "check $c exit ${PIPESTATUS[0]}" ); done
git -C /repo checkout -q -- .
git -C /verif checkout -q -- evidence
git -C /repo status --short | head -3
