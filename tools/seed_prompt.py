#!/usr/bin/env python3
"""usage: tools/seed_prompt.py <PROP> <TAG> mutant|benign [N]

Prints the prompt for an independent sub-agent: the text of the property (from properties.jsonl) and
the location of its own scratch worktree /tmp/wt-<PROP>-<TAG>; nothing about /verif's machinery.
Outputs are expected in /tmp/seed-out/<PROP>-<TAG>/ (patchK.diff, demoK.py, notesK.md)."""
import json
import sys

pid, tag, mode = sys.argv[1:4]
n = int(sys.argv[4]) if len(sys.argv) > 4 else 2
props = {json.loads(l)["id"]: json.loads(l) for l in open("/verif/properties.jsonl")}
p = props[pid]
wt = f"/tmp/wt-{pid}-{tag}"
out = f"/tmp/seed-out/{pid}-{tag}"
mech = "; ".join(f"{m['name']} ({m['where']})" for m in p["anchors"]["mechanism"])
ks = ", ".join(str(k) for k in range(1, n + 1))
WORDS = {1: "ONE", 2: "TWO", 3: "THREE", 4: "FOUR"}

head = f"""You are helping test a verification tool for the Python project inducer/dagrt (a DAG-based IR/runtime for time-integration methods, with a NumPy interpreter and Python/Fortran code generators).

You have your own scratch git worktree of the project at {wt} (work ONLY there; never touch /repo or /verif, and do not read anything under /verif). Run Python as: cd {wt} && PYTHONPATH={wt} /venv/bin/python ...   The test suite is: cd {wt} && PYTHONPATH={wt} /venv/bin/python -m pytest -q -p no:cacheprovider --timeout=900   (116 tests, all pass on the clean tree). There is no network. gfortran is installed.

The property under test ({pid}: {p['title']}):

\"\"\"{p['statement']}\"\"\"

Quantified over: {p['quantifier']['text']}
Code it is anchored in: {', '.join(p['anchors']['files'])}; mechanisms: {mech}
Observed at: {'; '.join(p['anchors']['observe_at'])}
"""

if mode == "mutant":
    body = f"""
YOUR TASK: produce {WORDS[n]} different, independent changes (mutants) to the dagrt source code, each of which
  (a) BREAKS the property above for some input, while
  (b) the package still imports and ALL 116 existing tests still pass with the change applied, and
  (c) is *subtle*: it must need something specific to manifest (an unusual input shape, a multi-step sequence of operations, a particular combination of features, two cooperating sites that each look fine alone, a failure at a particular point...) - NOT something any ordinary use would expose at once. It should look like a plausible mistake or a plausible 'optimisation/refactoring' a maintainer might make, touching a few lines.
The mutants should attack different mechanisms/code paths of the property (look at ALL the mechanisms listed above, also the less obvious ones, and at the interplay between them).

For each mutant K in ({ks}) write these files (create the directory if needed):
  {out}/patch<K>.diff  - output of `git diff` in the worktree with ONLY that mutant applied (must apply to a clean tree with `git apply`)
  {out}/demo<K>.py     - a small stand-alone Python program (run from the worktree root with PYTHONPATH set as above) demonstrating the violation: it must exit 0 on the CLEAN tree and exit 1 (with a short message saying what went wrong) with the mutant applied. The demo should check the property itself on a concrete input (e.g. compare behaviours / values), not merely grep the source.
  {out}/notes<K>.md    - 5-10 lines: what the change is, why the tests do not notice, exactly what is needed for it to manifest.

Procedure for each: start from a clean tree (git -C {wt} checkout -- . ), read the relevant code, make the edit, run the test suite (all 116 must pass), run your demo (must exit 1), save `git diff > patch<K>.diff`, revert (git checkout -- .), run the demo again (must exit 0). Leave the worktree clean at the end (git status shows nothing; remove any scratch files you created inside it).

Before finishing, verify for EVERY mutant, from a clean tree: `git apply {out}/patch<K>.diff` works, tests pass (116 passed), demo exits 1; after `git checkout -- .` demo exits 0. Report briefly what the mutants are and the verification output. Do not write anything outside {wt} and {out}."""
else:
    body = f"""
YOUR TASK: produce {WORDS[n]} different, independent HARMLESS changes to the dagrt source code in the code this property is anchored in - changes after which the property STILL HOLDS for every input - each of which
  (a) is the kind of change a maintainer would really make and merge: a refactoring (restructured control flow, a loop turned into a comprehension or the other way round, a helper extracted or inlined, a different but equivalent data structure or algorithm, a cache, an early exit, reordered independent operations, renamed internals, changed wording of an error message or of a comment in generated code, changed whitespace/layout of generated code, ...), touching from a few up to a few dozen lines of the anchored code,
  (b) keeps the package importing and ALL 116 existing tests passing, and
  (c) does NOT change any behaviour the property talks about (the property must hold exactly as before, for all inputs, not only the ones you try).
Make the changes different in nature: at least one should be a pure refactoring with identical observable behaviour, and at least one should change something that IS observable but that the property does not care about (for example an order among independent things, the spelling of internal or generated helper names where nothing depends on them, a message text, formatting of emitted code). Do not make trivial changes (pure comment / docstring edits, blank lines): the code that executes must really differ.

For each change K in ({ks}) write these files (create the directory if needed):
  {out}/patch<K>.diff  - output of `git diff` in the worktree with ONLY that change applied (must apply to a clean tree with `git apply`)
  {out}/demo<K>.py     - a small stand-alone Python program (run from the worktree root with PYTHONPATH set as above) that exercises the changed code on a few concrete inputs and checks the property itself there (compare behaviours / values); it must exit 0 both on the clean tree and with the change applied.
  {out}/notes<K>.md    - 5-10 lines: what the change is, what (if anything) becomes observably different, and your argument why the property still holds for all inputs.

Procedure for each: start from a clean tree (git -C {wt} checkout -- . ), read the relevant code, make the edit, run the test suite (all 116 must pass), run your demo (must exit 0), save `git diff > patch<K>.diff`, revert (git checkout -- .). Leave the worktree clean at the end (git status shows nothing; remove any scratch files you created inside it).

Before finishing, verify for EVERY change, from a clean tree: `git apply {out}/patch<K>.diff` works, tests pass (116 passed), demo exits 0. Report briefly what the changes are and the verification output. Do not write anything outside {wt} and {out}."""

print(head + body)
