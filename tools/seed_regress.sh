#!/bin/bash
# usage: tools/seed_regress.sh [ids...]   - every stored seeded change against its property's quick check
# (applies to /repo, runs, reverts). Prints: id, applies?, exit code of the check, last line.
cd /verif
IDS=${@:-$(ls seeded | grep -v harmless)}
for id in $IDS; do
  P=${id%%-*}
  if ! git -C /repo apply --check /verif/seeded/$id/patch.diff 2>/dev/null; then echo "$id does-not-apply (the tree moved on: a later fix touches the same lines)"; continue; fi
  git -C /repo apply /verif/seeded/$id/patch.diff
  out=$(timeout 900 ./check $P 2>&1 | grep -v KNOWN | tail -1); rc=$?
  viol=$(echo "$out" | grep -o "violations=[0-9]*")
  git -C /repo checkout -q -- .
  echo "$id $viol :: $out" | cut -c1-200
done
git -C /verif checkout -q -- evidence
